#!/usr/bin/env python3
"""seed_eval.py <prop> <worktree> <seeddir-name> <seed-id> [pkgs...]
Confirms a seeded change in the scratch worktree (compiles, package tests pass, demo fails with /
passes without), stores it under /verif/seeded/<seed-id>/ and runs the property's quick check against
/repo with the patch applied (undone afterwards)."""
import json, os, re, shutil, subprocess, sys, time
prop, wt, sd, sid = sys.argv[1:5]
pkgs = sys.argv[5:]
env = dict(os.environ, GOFLAGS="-mod=mod", GOPROXY="off", GOSUMDB="off", GOTOOLCHAIN="local")
def run(cmd, cwd, timeout=1800):
    t=time.time()
    p = subprocess.run(cmd, cwd=cwd, env=env, shell=True, stdout=subprocess.PIPE, stderr=subprocess.STDOUT, text=True, timeout=timeout)
    return p.returncode, p.stdout, time.time()-t
src = os.path.join(wt, sd)
patch = os.path.join(src, "patch.diff")
demo = os.path.join(src, "demo_test.go")
first = open(demo).readline()
m = re.search(r'(internal/[\w/]+?)/?(zz_[\w]+_test\.go)?\s*$', first.strip().rstrip('`'))
m2 = re.search(r'(internal/[\w]+)', first)
demodir = m2.group(1)
meta = {"seed": sid, "property": prop, "source_worktree": wt, "ran": []}
def step(name, cmd, cwd, expect_ok):
    rc, out, dt = run(cmd, cwd)
    ok = (rc == 0) == expect_ok
    meta["ran"].append({"step": name, "cmd": cmd, "exit": rc, "seconds": round(dt,1), "as_expected": ok, "tail": out[-600:]})
    print(("ok  " if ok else "BAD ")+name, "(exit %d, %.0fs)"%(rc,dt)); sys.stdout.flush()
    return ok
run("git checkout -- . ; rm -f internal/*/zz_demo_test.go", wt)
if not pkgs:
    touched = subprocess.run("grep '^+++ b/' %s | sed 's|+++ b/||'"%patch, shell=True, stdout=subprocess.PIPE, text=True).stdout.split()
    pkgs = sorted(set("./"+os.path.dirname(t)+"/" for t in touched))
allok = True
allok &= step("apply patch in scratch worktree", "git apply %s"%patch, wt, True)
allok &= step("build", "go build ./...", wt, True)
skip = "-skip 'TestOnDemandKillerPv_never'"
allok &= step("existing tests of touched packages with patch", "go test -vet=off -count=1 -timeout 25m %s"%" ".join(pkgs), wt, True)
shutil.copy(demo, os.path.join(wt, demodir, "zz_demo_test.go"))
allok &= step("demo with patch (must fail)", "go test -vet=off -count=1 -run 'Demo|Seed|Zz|ZZ|C[0-9][0-9]' ./%s/"%demodir, wt, False)
run("git apply -R %s"%patch, wt)
allok &= step("demo without patch (must pass)", "go test -vet=off -count=1 -run 'Demo|Seed|Zz|ZZ|C[0-9][0-9]' ./%s/"%demodir, wt, True)
os.remove(os.path.join(wt, demodir, "zz_demo_test.go"))
run("git checkout -- .", wt)
meta["confirmed"] = allok
dst = os.path.join("/verif/seeded", sid)
os.makedirs(dst, exist_ok=True)
shutil.copy(patch, os.path.join(dst, "patch.diff"))
shutil.copy(demo, os.path.join(dst, "demo_test.go"))
if os.path.exists(os.path.join(src, "notes.txt")):
    shutil.copy(os.path.join(src, "notes.txt"), os.path.join(dst, "notes.txt"))
# run the check against the scratch worktree with the patch applied (VX_REPO), so /repo stays untouched
rc, out, dt = run("git apply %s"%os.path.join(dst,"patch.diff"), wt)
if rc != 0:
    meta["check"] = {"error": "patch does not apply: "+out[-300:]}
else:
    try:
        env["VX_REPO"] = wt
        meta["check"] = {"detected": False, "runs": []}
        for pr in prop.split(","):
            rc, out, dt = run("./check %s --tier quick -no-evidence -jobs 8"%pr, "/verif", timeout=3000)
            lines = [l for l in out.splitlines() if l.startswith(("VIOLATION","gosmx:","KNOWN","ENCOD","INCONCL","VACUOUS","BOUND"))]
            meta["check"]["runs"].append({"cmd": "./check %s --tier quick"%pr, "exit": rc, "seconds": round(dt,1), "detected": rc == 1, "lines": lines[:12]})
            meta["check"]["detected"] |= (rc == 1)
            print("CHECK %s exit=%d detected=%s (%.0fs)"%(pr, rc, rc==1, dt))
            for l in lines[:6]: print("   ", l[:200])
    finally:
        run("git checkout -- .", wt)
meta["property"] = prop.split(",")[0]
json.dump(meta, open(os.path.join(dst,"meta.json"),"w"), indent=1)
