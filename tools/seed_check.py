#!/usr/bin/env python3
"""seed_check.py <scratch-worktree-at-/repo-HEAD> [seed-id ...]
Runs the registered quick checks against every stored seeded change (seeded/<id>/patch.diff, or
patch_rebased_*.diff when the original no longer applies to the current /repo HEAD) applied to a scratch
worktree of /repo's HEAD (VX_REPO), and records the outcome in seeded/<id>/meta.json under "check".
The worktree is reset before and after every seed."""
import glob, json, os, subprocess, sys, time
wt = sys.argv[1]
only = sys.argv[2:]
extra = {"C01-seed1": ["C02"], "C01-seed2": ["C08"], "C09-seed2": ["C09"], "C03-seed1": ["C03", "C10"]}
env = dict(os.environ, GOFLAGS="-mod=mod", GOPROXY="off", GOSUMDB="off", GOTOOLCHAIN="local", VX_REPO=wt)
def sh(cmd, cwd, timeout=4000):
    t = time.time()
    p = subprocess.run(cmd, cwd=cwd, env=env, shell=True, stdout=subprocess.PIPE, stderr=subprocess.STDOUT, text=True, timeout=timeout)
    return p.returncode, p.stdout, time.time() - t
head = subprocess.run("git rev-parse --short HEAD", cwd="/repo", shell=True, stdout=subprocess.PIPE, text=True).stdout.strip()
for d in sorted(glob.glob("/verif/seeded/*/")):
    sid = os.path.basename(d.rstrip("/"))
    if only and sid not in only:
        continue
    mf = os.path.join(d, "meta.json")
    meta = json.load(open(mf)) if os.path.exists(mf) else {"seed": sid}
    prop = sid.split("-")[0]
    props = extra.get(sid, [prop])
    sh("git checkout -q -- . && git checkout -q --detach %s" % head, wt)
    patch = os.path.join(d, "patch.diff")
    rc, out, _ = sh("git apply --check %s" % patch, wt)
    note = ""
    if rc != 0:
        reb = sorted(glob.glob(os.path.join(d, "patch_rebased_*.diff")))
        if reb:
            patch = reb[-1]
            note = "original patch does not apply to %s; rebased equivalent used" % head
        else:
            meta["check"] = {"repo_head": head, "error": "patch does not apply to current HEAD: " + out[-200:]}
            json.dump(meta, open(mf, "w"), indent=1)
            print(sid, "PATCH-DOES-NOT-APPLY")
            continue
    sh("git apply %s" % patch, wt)
    rc, out, _ = sh("go build ./...", wt)
    res = {"repo_head": head, "patch": os.path.basename(patch), "note": note, "detected": False, "runs": []}
    if rc != 0:
        res["error"] = "does not build on current HEAD: " + out[-300:]
    else:
        for pr in props:
            rc, out, dt = sh("./check %s --tier quick -no-evidence" % pr, "/verif")
            lines = [l for l in out.splitlines() if l.startswith(("VIOLATION", "gosmx:", "ENCOD", "INCONCL", "VACUOUS", "BOUND"))]
            viol = any(l.startswith("VIOLATION") for l in lines)
            res["runs"].append({"cmd": "./check %s --tier quick" % pr, "exit": rc, "seconds": round(dt, 1),
                                "detected": rc == 1 and viol, "lines": [l[:200] for l in lines[:8]]})
            res["detected"] = res["detected"] or (rc == 1 and viol)
            print("%s %s exit=%d violation=%s (%.0fs)" % (sid, pr, rc, viol, dt)); sys.stdout.flush()
    meta["check"] = res
    meta["property"] = prop
    json.dump(meta, open(mf, "w"), indent=1)
    sh("git checkout -q -- .", wt)
print("done")
