package uci

import (
	myLogging "github.com/frankkopp/FrankyGo/internal/logging"
	"github.com/frankkopp/FrankyGo/internal/movegen"
	"github.com/frankkopp/FrankyGo/internal/moveslice"
	"github.com/frankkopp/FrankyGo/internal/position"
	"github.com/frankkopp/FrankyGo/internal/search"
	. "github.com/frankkopp/FrankyGo/internal/types"
)

// C16, UCI half: the command parsers on arbitrary token sequences.
//
// A command line is modelled after tokenisation (handleReceivedCommand splits at white space with
// regexp.Split, which is not encoded): tokens[0] is the command word, tokens[1..n] are arbitrary
// tokens - each one either a word of the parser's vocabulary or up to three arbitrary ASCII bytes
// (digits, signs, junk). n is the case parameter.
//
//  VH_C16_go_tokens(n): readSearchLimits never panics (every index into tokens is an obligation) and
//      returns either an error flag or limits.
//  VH_C16_position_tokens(n): positionCommand never panics, whatever the tokens and whatever the
//      FEN / move parsers answer (NewPositionFen and GetMoveFromUci are replaced by arbitrary
//      outcomes: accepted or rejected), and afterwards the handler still holds a position: the new
//      one if the FEN was accepted, otherwise the one it held before.
//  VH_C16_go_needs_position: goCommand dereferences the held position - safe exactly because of the
//      invariant "a position is always held" established by NewUciHandler and kept by positionCommand.

func vxToken(i int) string {
	vxUciWords := [...]string{"moves", "infinite", "ponder", "depth", "nodes", "mate", "movetime", "moveTime",
		"wtime", "btime", "winc", "binc", "movestogo", "startpos", "fen", "searchmoves"}
	k := int(vxU8(vxName("tok.kind", i)))
	if k < len(vxUciWords) {
		return vxUciWords[k]
	}
	var buf [3]byte
	n := int(vxU8(vxName("tok.len", i)))
	vxAssume(n >= 1 && n <= 3)
	for j := 0; j < 3; j++ {
		buf[j] = vxU8(vxName(vxName("tok.byte", i), j))
		vxAssume(buf[j] > ' ' && buf[j] < 0x7f)
	}
	return string(buf[:n])
}

// vxRequire: an assertion that later obligations may rely on (a failure is reported once, at its first site)
func vxRequire(c bool, id string) {
	vxAssert(c, id)
	vxAssume(c)
}

func vxTokens(cmd string, n int) []string {
	tokens := make([]string, n+1)
	tokens[0] = cmd
	for i := 1; i <= n; i++ {
		tokens[i] = vxToken(i)
	}
	return tokens
}

func vxHandler() *UciHandler {
	if log == nil {
		log = myLogging.GetLog()
	}
	u := &UciHandler{myMoveGen: &movegen.Movegen{}, myPosition: &position.Position{}}
	vxStub("(*github.com/frankkopp/FrankyGo/internal/uci.UciHandler).SendInfoString", func(uu *UciHandler, s string) {})
	vxStub("(*github.com/frankkopp/FrankyGo/internal/movegen.Movegen).GetMoveFromUci", func(mg *movegen.Movegen, p *position.Position, s string) Move {
		vxRequire(p != nil, "uci.move-parser-called-with-a-position")
		if vxFreshBool("uci.move.valid") {
			return CreateMove(SqE2, SqE4, Normal, PtNone)
		}
		return MoveNone
	})
	// the list of search moves only grows; its contents are not part of this claim
	vxStub("(*github.com/frankkopp/FrankyGo/internal/moveslice.MoveSlice).PushBack", func(ms *moveslice.MoveSlice, m Move) {})
	return u
}

const vxUciMaxTokens = 6

func VN_C16_go_tokens() int { return vxUciMaxTokens + 1 }
func VH_C16_go_tokens(n int) {
	u := vxHandler()
	tokens := vxTokens("go", n)
	vxUnwind(n + 2) // the token index strictly increases: at most n iterations (unwinding-checked)
	sl, failed := u.readSearchLimits(tokens)
	vxReach("c16.go.returned")
	if failed {
		vxReach("c16.go.rejected")
		return
	}
	vxReach("c16.go.accepted")
	vxAssert(sl != nil, "uci.go-accepted-returns-limits")
	vxAssert(sl.Infinite || sl.Ponder || sl.Depth > 0 || sl.Nodes > 0 || sl.Mate > 0 || sl.TimeControl, "uci.go-accepted-has-an-effective-limit")
}

func VN_C16_position_tokens() int { return vxUciMaxTokens + 1 }
func VH_C16_position_tokens(n int) {
	u := vxHandler()
	old := u.myPosition
	fresh := &position.Position{}
	accepted := vxBool("fen.accepted")
	vxStub("github.com/frankkopp/FrankyGo/internal/position.NewPositionFen", func(fen string) (*position.Position, error) {
		if accepted {
			return fresh, nil
		}
		return nil, vxError{}
	})
	vxStub("(*github.com/frankkopp/FrankyGo/internal/position.Position).DoMove", func(p *position.Position, m Move) {
		vxRequire(p != nil, "uci.position-moves-played-on-a-position")
	})
	vxStub("(*github.com/frankkopp/FrankyGo/internal/position.Position).StringFen", func(p *position.Position) string {
		vxRequire(p != nil, "uci.position-fen-printed-of-a-position")
		return ""
	})
	tokens := vxTokens("position", n)
	vxUnwind(n + 2)
	u.positionCommand(tokens)
	vxReach("c16.position.returned")
	vxRequire(u.myPosition != nil, "uci.position-command-leaves-a-position")
	vxAssert(u.myPosition == old || (accepted && u.myPosition == fresh), "uci.position-command-keeps-the-old-position-unless-a-new-one-was-accepted")
}

type vxError struct{}

func (vxError) Error() string { return "vx" }


func VH_C16_go_needs_position() {
	u := vxHandler()
	u.mySearch = &search.Search{}
	started := false
	vxStub("(*github.com/frankkopp/FrankyGo/internal/search.Search).StartSearch", func(s *search.Search, p position.Position, sl search.Limits) {
		started = true
	})
	tokens := []string{"go", "depth", "3"}
	u.goCommand(tokens)
	vxAssert(started, "uci.go-depth-3-starts-a-search")
	vxReach("c16.go.started")
}
