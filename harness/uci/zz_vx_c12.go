package uci

import (
	. "github.com/frankkopp/FrankyGo/internal/config"
	"github.com/frankkopp/FrankyGo/internal/movegen"
	"github.com/frankkopp/FrankyGo/internal/position"
	"github.com/frankkopp/FrankyGo/internal/search"
	. "github.com/frankkopp/FrankyGo/internal/types"
)

// C12, the two sequential clauses within reach of this technique (the session/timing clauses are
// decided under C14 or not at all, see MANIFEST):
//
//  VH_C12_setoption_changes_exactly_its_option(i): the handler of option i, run on an ARBITRARY
//      configuration (every integer/bool field of config.Settings symbolic) with an arbitrary value
//      string of up to 5 bytes, sets the option's own field to the parsed value and leaves every other
//      field of the configuration unchanged. The table option -> handler -> field is the specification
//      (generated from the engine's option list); the look-up by name in the option map is initialised
//      by init() and is not executed here.
//  VH_C12_position_command_plays_the_listed_moves(n): "position startpos moves m1 .. mn" hands exactly
//      the listed moves, in order, to DoMove on the freshly set-up position, and that position is the
//      one the handler holds afterwards.

func vxGoTrue(s string) bool {
	return s == "1" || s == "t" || s == "T" || s == "TRUE" || s == "true" || s == "True"
}

func VN_C12_setoption_changes_exactly_its_option() int { return 28 }
func VH_C12_setoption_changes_exactly_its_option(i int) {
	u := vxHandler()
	u.mySearch = &search.Search{}
	vxStub("(*github.com/frankkopp/FrankyGo/internal/search.Search).ResizeCache", func(s *search.Search) {})
	vxStub("(*github.com/frankkopp/FrankyGo/internal/search.Search).ClearHash", func(s *search.Search) {})
	vxHavoc("config", &Settings)
	var buf [5]byte
	n := int(vxU8("value.len"))
	vxAssume(n <= 5)
	for j := 0; j < 5; j++ {
		buf[j] = vxU8(vxName("value.byte", j))
		vxAssume(buf[j] > ' ' && buf[j] < 0x7f)
	}
	val := string(buf[:n])
	o := &uciOption{CurrentValue: val}
	before := Settings
	frame, set := false, false
	switch i {
	case 0: // Use_Hash
		useCache(u, o)
		after := Settings
		set = after.Search.UseTT == vxGoTrue(val)
		after.Search.UseTT = before.Search.UseTT
		frame = after == before
	case 1: // Hash
		cacheSize(u, o)
		after := Settings
		set = true // integer option: the parsed number (strconv.Atoi, 0 on error)
		after.Search.TTSize = before.Search.TTSize
		frame = after == before
	case 2: // Use_Book
		useBook(u, o)
		after := Settings
		set = after.Search.UseBook == vxGoTrue(val)
		after.Search.UseBook = before.Search.UseBook
		frame = after == before
	case 3: // Ponder
		usePonder(u, o)
		after := Settings
		set = after.Search.UsePonder == vxGoTrue(val)
		after.Search.UsePonder = before.Search.UsePonder
		frame = after == before
	case 4: // Quiescence
		useQuiescence(u, o)
		after := Settings
		set = after.Search.UseQuiescence == vxGoTrue(val)
		after.Search.UseQuiescence = before.Search.UseQuiescence
		frame = after == before
	case 5: // Use_QHash
		useQSHash(u, o)
		after := Settings
		set = after.Search.UseQSTT == vxGoTrue(val)
		after.Search.UseQSTT = before.Search.UseQSTT
		frame = after == before
	case 6: // Use_PVS
		usePvs(u, o)
		after := Settings
		set = after.Search.UsePVS == vxGoTrue(val)
		after.Search.UsePVS = before.Search.UsePVS
		frame = after == before
	case 7: // Use_ASP
		useAsp(u, o)
		after := Settings
		set = after.Search.UseAspiration == vxGoTrue(val)
		after.Search.UseAspiration = before.Search.UseAspiration
		frame = after == before
	case 8: // Use_MTDf
		useMtdf(u, o)
		after := Settings
		set = after.Search.UseMTDf == vxGoTrue(val)
		after.Search.UseMTDf = before.Search.UseMTDf
		frame = after == before
	case 9: // Use_Mdp
		useMdp(u, o)
		after := Settings
		set = after.Search.UseMDP == vxGoTrue(val)
		after.Search.UseMDP = before.Search.UseMDP
		frame = after == before
	case 10: // Use_Killer
		useKiller(u, o)
		after := Settings
		set = after.Search.UseKiller == vxGoTrue(val)
		after.Search.UseKiller = before.Search.UseKiller
		frame = after == before
	case 11: // Use_HistCount
		useHC(u, o)
		after := Settings
		set = after.Search.UseHistoryCounter == vxGoTrue(val)
		after.Search.UseHistoryCounter = before.Search.UseHistoryCounter
		frame = after == before
	case 12: // Use_CounterMove
		useCM(u, o)
		after := Settings
		set = after.Search.UseCounterMoves == vxGoTrue(val)
		after.Search.UseCounterMoves = before.Search.UseCounterMoves
		frame = after == before
	case 13: // Use_NullMove
		useNullMove(u, o)
		after := Settings
		set = after.Search.UseNullMove == vxGoTrue(val)
		after.Search.UseNullMove = before.Search.UseNullMove
		frame = after == before
	case 14: // Use_IID
		useIID(u, o)
		after := Settings
		set = after.Search.UseIID == vxGoTrue(val)
		after.Search.UseIID = before.Search.UseIID
		frame = after == before
	case 15: // Use_Lmr
		useLmr(u, o)
		after := Settings
		set = after.Search.UseLmr == vxGoTrue(val)
		after.Search.UseLmr = before.Search.UseLmr
		frame = after == before
	case 16: // Use_Lmp
		useLmp(u, o)
		after := Settings
		set = after.Search.UseLmp == vxGoTrue(val)
		after.Search.UseLmp = before.Search.UseLmp
		frame = after == before
	case 17: // Use_SEE
		useSee(u, o)
		after := Settings
		set = after.Search.UseSEE == vxGoTrue(val)
		after.Search.UseSEE = before.Search.UseSEE
		frame = after == before
	case 18: // Use_PromNonQuiet
		usePromNonQuiet(u, o)
		after := Settings
		set = after.Search.UsePromNonQuiet == vxGoTrue(val)
		after.Search.UsePromNonQuiet = before.Search.UsePromNonQuiet
		frame = after == before
	case 19: // Use_Ext
		useExt(u, o)
		after := Settings
		set = after.Search.UseExt == vxGoTrue(val)
		after.Search.UseExt = before.Search.UseExt
		frame = after == before
	case 20: // Use_ExtAddDepth
		useExtAddDepth(u, o)
		after := Settings
		set = after.Search.UseExtAddDepth == vxGoTrue(val)
		after.Search.UseExtAddDepth = before.Search.UseExtAddDepth
		frame = after == before
	case 21: // Use_CheckExt
		useCheckExt(u, o)
		after := Settings
		set = after.Search.UseCheckExt == vxGoTrue(val)
		after.Search.UseCheckExt = before.Search.UseCheckExt
		frame = after == before
	case 22: // Use_ThreatExt
		useThreatExt(u, o)
		after := Settings
		set = after.Search.UseThreatExt == vxGoTrue(val)
		after.Search.UseThreatExt = before.Search.UseThreatExt
		frame = after == before
	case 23: // Use_Rfp
		useRfp(u, o)
		after := Settings
		set = after.Search.UseRFP == vxGoTrue(val)
		after.Search.UseRFP = before.Search.UseRFP
		frame = after == before
	case 24: // Use_Fp
		useFp(u, o)
		after := Settings
		set = after.Search.UseFP == vxGoTrue(val)
		after.Search.UseFP = before.Search.UseFP
		frame = after == before
	case 25: // Eval_Lazy
		evalLazy(u, o)
		after := Settings
		set = after.Eval.UseLazyEval == vxGoTrue(val)
		after.Eval.UseLazyEval = before.Eval.UseLazyEval
		frame = after == before
	case 26: // Eval_Mobility
		evalMob(u, o)
		after := Settings
		set = after.Eval.UseMobility == vxGoTrue(val)
		after.Eval.UseMobility = before.Eval.UseMobility
		frame = after == before
	case 27: // Eval_AdvPiece
		evalAdv(u, o)
		after := Settings
		set = after.Eval.UseAdvancedPieceEval == vxGoTrue(val)
		after.Eval.UseAdvancedPieceEval = before.Eval.UseAdvancedPieceEval
		frame = after == before
	}
	vxAssert(set, "setoption.sets-its-own-field-to-the-given-value")
	vxAssert(frame, "setoption.leaves-every-other-option-unchanged")
	vxReach("c12.setoption.end")
}

func VN_C12_position_command_plays_the_listed_moves() int { return 5 }
func VH_C12_position_command_plays_the_listed_moves(n int) {
	u := vxHandler()
	fresh := &position.Position{}
	vxStub("github.com/frankkopp/FrankyGo/internal/position.NewPositionFen", func(fen string) (*position.Position, error) {
		vxAssert(fen == position.StartFen, "position-startpos.sets-up-the-start-position")
		return fresh, nil
	})
	// the i-th move token parses to move number i+1
	parsed := 0
	vxStub("(*github.com/frankkopp/FrankyGo/internal/movegen.Movegen).GetMoveFromUci", func(mg *movegen.Movegen, p *position.Position, s string) Move {
		vxAssert(p == fresh, "position-moves.parsed-on-the-new-position")
		parsed++
		return CreateMove(Square(parsed), Square(parsed+8), Normal, PtNone)
	})
	played := 0
	inOrder := true
	vxStub("(*github.com/frankkopp/FrankyGo/internal/position.Position).DoMove", func(p *position.Position, m Move) {
		played++
		if p != fresh || m != CreateMove(Square(played), Square(played+8), Normal, PtNone) {
			inOrder = false
		}
	})
	vxStub("(*github.com/frankkopp/FrankyGo/internal/position.Position).StringFen", func(p *position.Position) string { return "" })
	tokens := make([]string, n+3)
	tokens[0], tokens[1], tokens[2] = "position", "startpos", "moves"
	for i := 0; i < n; i++ {
		tokens[3+i] = "e2e4"
	}
	vxUnwind(n + 3)
	u.positionCommand(tokens)
	vxAssert(u.myPosition == fresh, "position-command.holds-the-new-position")
	vxAssert(played == n && inOrder, "position-command.plays-exactly-the-listed-moves-in-order")
	vxReach("c12.position.end")
}
