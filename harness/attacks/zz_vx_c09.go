package attacks

import (
	"github.com/frankkopp/FrankyGo/internal/position"
	. "github.com/frankkopp/FrankyGo/internal/types"
)

// C09: AttacksTo == exactly the pieces of the colour that attack the square (+ en-passant marking),
// for every square (case parameter), both colours, on a fully symbolic well-formed position.
func VN_C09_attacks_to() int { return 64 }
func VH_C09_attacks_to(k int) {
	vxStub("github.com/frankkopp/FrankyGo/internal/types.GetAttacksBb", VxGeoAttacks)
	p, s := position.VxSymPosL("", false)
	by := Color(vxU8("by"))
	vxAssume(by < 2)
	sq := Square(k)
	got := AttacksTo(p, sq, by)
	vxAssert(got == s.VxSpecAttackers(sq, by)|s.VxEpMarked(sq, by), "AttacksTo==attackers+ep-marking")
	vxAssert((got != 0) == (p.IsAttacked(sq, by) && !vxOnlyEpAttack(&s, sq, by)) || s.VxEpMarked(sq, by) != 0, "AttacksTo-consistent-with-IsAttacked")
	vxReach("attacks_to.end")
}

// IsAttacked's en-passant convention applies on the victim pawn's square, AttacksTo's on the target
// square; apart from those squares the two queries agree.
func vxOnlyEpAttack(s *position.VxState, sq Square, by Color) bool {
	return s.VxSpecAttackers(sq, by) == 0
}
