package evaluator

import (
	attacks2 "github.com/frankkopp/FrankyGo/internal/attacks"
	. "github.com/frankkopp/FrankyGo/internal/config"
	"github.com/frankkopp/FrankyGo/internal/position"
	. "github.com/frankkopp/FrankyGo/internal/types"
)

const vxGetAttacksBb = "github.com/frankkopp/FrankyGo/internal/types.GetAttacksBb"
const vxValueFromScore = "(*github.com/frankkopp/FrankyGo/internal/types.Score).ValueFromScore"

// vxValueFromScoreSummary abstracts the floating-point interpolation (*Score).ValueFromScore by an
// uninterpreted function that is odd in (mid, end) by construction: V(-m,-e,g) == -V(m,e,g) and
// V(0,0,g) == 0. That these hold for the real function is the obligation VH_C15_value_from_score_odd
// in package types. Purity and symmetry of the evaluator then need integer reasoning only.
func vxValueFromScoreSummary(s *Score, gpf float64) Value {
	m, e := s.MidGameValue, s.EndGameValue
	if m == 0 && e == 0 {
		return 0
	}
	if m < 0 || (m == 0 && e < 0) {
		return -Value(vxUFI16("ValueFromScore", -m, -e, gpf))
	}
	return Value(vxUFI16("ValueFromScore", m, e, gpf))
}

// an evaluator instance in an arbitrary state left behind by earlier evaluations
func vxUsedEvaluator(tag string) *Evaluator {
	e := &Evaluator{attacks: attacks2.NewAttacks()}
	e.us = Color(vxU8(tag + "us"))
	e.them = Color(vxU8(tag + "them"))
	vxAssume(e.us < 2 && e.them < 2)
	e.ourKing = Square(vxU8(tag + "ourKing"))
	e.theirKing = Square(vxU8(tag + "theirKing"))
	e.kingRing[0] = Bitboard(vxU64(tag + "ring0"))
	e.kingRing[1] = Bitboard(vxU64(tag + "ring1"))
	e.ourPieces = Bitboard(vxU64(tag + "ourPieces"))
	e.score.MidGameValue = vxInt(tag + "mid")
	e.score.EndGameValue = vxInt(tag + "end")
	return e
}

func vxSymEvalSwitches(k int) {
	Settings.Eval.UseLazyEval = k&1 != 0
	Settings.Eval.UseAdvancedPieceEval = k&2 != 0
	Settings.Eval.Tempo = vxInt("Tempo")
	vxAssume(Settings.Eval.Tempo >= 0 && Settings.Eval.Tempo <= 100)
}

// purity: the value does not depend on the evaluator instance, on earlier evaluations (instance
// state, package-level scratch score) and evaluating does not modify the position
func VN_C15_pure() int { return 3 } // lazy + advanced piece evaluation together: queries stayed undecided after 900 s (not claimed)
func VQ_C15_pure() int { return 3 } // case 3 (lazy + advanced piece evaluation together) needs a long solver run: thorough
func VH_C15_pure(k int) {
	vxStub(vxGetAttacksBb, VxGeoAttacks)
	if vxSymbolic() { // the summary is an abstraction: the native replay runs the real function
		vxStub(vxValueFromScore, vxValueFromScoreSummary)
	}
	vxSymEvalSwitches(k)
	p := position.VxSymPosEval("")
	before := *p
	tmpScore.MidGameValue = vxInt("tmp.mid")
	tmpScore.EndGameValue = vxInt("tmp.end")
	e1, e2 := vxUsedEvaluator("e1."), vxUsedEvaluator("e2.")
	// e1 has really evaluated another arbitrary position before (whatever an implementation keeps
	// between evaluations is then a reachable state, not an invented one)
	p0 := position.VxSymPosEval("p0.")
	e1.Evaluate(p0)
	v1 := e1.Evaluate(p)
	vxAssert(p.VxSameFields(&before), "evaluate-does-not-modify-position")
	v2 := e2.Evaluate(p)
	v3 := e1.Evaluate(p)
	vxAssert(v1 == v2, "value-independent-of-evaluator-instance")
	vxAssert(v1 == v3, "value-independent-of-earlier-evaluations")
	vxAssert(p.VxSameFields(&before), "evaluate-does-not-modify-position-2")
	if p.HasInsufficientMaterial() {
		vxAssert(v1 == 0, "insufficient-material-evaluates-to-0")
		vxReach("pure.insufficient")
	}
	vxReach("pure.end")
}

// colour symmetry: same value from the mover's point of view for the mirrored position
func VN_C15_symmetric() int { return 2 } // default and lazy evaluation; with advanced piece evaluation the symmetry queries stayed undecided (13 min, all solvers): not claimed
func VQ_C15_symmetric() int { return 1 } // quick: default switches; the UCI-exposed combinations run in thorough
func VH_C15_symmetric(k int) {
	vxStub(vxGetAttacksBb, VxGeoAttacks)
	if vxSymbolic() { // the summary is an abstraction: the native replay runs the real function
		vxStub(vxValueFromScore, vxValueFromScoreSummary)
	}
	vxSymEvalSwitches(k)
	p := position.VxSymPosEval("")
	m := p.VxMirror()
	v := NewEvaluator().Evaluate(p)
	vm := NewEvaluator().Evaluate(m)
	vxAssert(v == vm, "mirror-symmetric")
	vxReach("symmetric.end")
}
