package movegen

import (
	"github.com/frankkopp/FrankyGo/internal/config"
	"github.com/frankkopp/FrankyGo/internal/moveslice"
	"github.com/frankkopp/FrankyGo/internal/position"
	. "github.com/frankkopp/FrankyGo/internal/types"
)

const vxIsLegalMove = "(*github.com/frankkopp/FrankyGo/internal/position.Position).IsLegalMove"

// C08 (quick has-legal-move test). IsLegalMove is replaced by an observer with an arbitrary
// (uninterpreted) verdict per move, so the statement is about which candidates HasLegalMove tries:
//  (a) every candidate is a pseudo-legal move up to the promotion piece / move type of a pawn move
//      to the last rank (legality does not depend on those),
//  (b) every pseudo-legal move (arbitrary target, origin square = case parameter) is covered by a
//      candidate with the same origin and destination,
//  (c) the answer is true exactly when some candidate is judged legal.
// With IsLegalMove == rules (C09) this gives HasLegalMove == (legal move list non-empty).

// vxSameSquares: does candidate m stand for target t as far as legality is concerned?
func vxCovers(m, t Move) bool {
	if m.From() != t.From() || m.To() != t.To() {
		return false
	}
	// castling must be tried as castling (its legality has extra conditions); en passant as en
	// passant (the captured pawn matters); promotion vs normal is irrelevant for king safety
	if t.MoveType() == Castling || t.MoveType() == EnPassant {
		return m.MoveType() == t.MoveType()
	}
	return m.MoveType() == Normal || m.MoveType() == Promotion
}

// (a)+(b): the candidate set. The observer answers "illegal" to every candidate, so HasLegalMove
// runs through its complete candidate sequence (which does not depend on the answers).
func VN_C08_has_legal_move_candidates() int { return 64 }
func VQ_C08_has_legal_move_candidates() int { return 2 }
func VH_C08_has_legal_move_candidates(k int) {
	vxStub(vxGetAttacksBb, VxGeoAttacks)
	p, s := position.VxSymPosL("", false)
	from := Square(k)
	to := Square(vxU8("t.to"))
	mt := MoveType(vxU8("t.type"))
	pr := PieceType(vxU8("t.prom"))
	vxAssume(to < 64 && mt < 4 && pr >= Knight && pr <= Queen)
	if mt != Promotion {
		pr = Knight
	}
	t := CreateMove(from, to, mt, pr)
	covered, badCandidate := false, false
	oppInCheck := s.VxInCheck(s.Stm.Flip())
	vxStub(vxIsLegalMove, func(pp *position.Position, m Move) bool {
		// only candidates leaving the case's origin square are examined: 64 cases cover all
		if m.From() == from {
			alt := CreateMove(m.From(), m.To(), Promotion, Queen)
			ok := s.VxSpecPseudoLegal(m.MoveOf()) || (m.MoveType() == Normal && s.VxSpecPseudoLegal(alt))
			// legal positions only: a candidate that captures the king exists only if the side not to
			// move is in check
			if s.Board[m.To()].TypeOf() == King && oppInCheck {
				ok = true
			}
			vxAssertBatched(ok, "has-legal-move.candidates-are-pseudo-legal")
			if !ok {
				badCandidate = true
			}
			if vxCovers(m, t) {
				covered = true
			}
		}
		return false
	})
	mg := NewMoveGen()
	got := mg.HasLegalMove(p)
	_ = badCandidate
	vxAssert(!got, "has-legal-move.false-when-no-candidate-is-legal")
	// castling is deliberately not tried (a castling move is never the only legal move: the king
	// step next to it is then legal too) - excluded from the coverage claim
	if s.VxSpecPseudoLegal(t) && mt != Castling {
		vxAssert(covered, "has-legal-move.every-pseudo-legal-move-is-tried")
	}
	vxReach("has_legal_move_candidates.end")
}

// (c): with an arbitrary (uninterpreted) verdict per candidate the answer is true exactly when some
// tried candidate is judged legal.
func VH_C08_has_legal_move_answer() {
	vxStub(vxGetAttacksBb, VxGeoAttacks)
	p, _ := position.VxSymPosL("", false)
	anyLegal := false
	vxStub(vxIsLegalMove, func(pp *position.Position, m Move) bool {
		verdict := vxUFBool("legal", uint64(m.MoveOf()))
		if verdict {
			anyLegal = true
		}
		return verdict
	})
	mg := NewMoveGen()
	got := mg.HasLegalMove(p)
	vxAssert(got == anyLegal, "has-legal-move.true-iff-a-tried-move-is-legal")
	vxReach("has_legal_move_answer.end")
}

// C08 evasion clause (also C01 "check evasions"): with the side to move in check, each generator in
// evasion mode (evasion targets computed by the real getEvasionTargets) emits an arbitrary target move
// at most once, only if it is pseudo-legal and of the generator's class, and always if it is legal:
// evasion generation "returns only pseudo-legal moves, none twice, and omits only illegal ones".
// case k = (gen*2 + (mode-1))*64 + origin square of the target; gen 0 pawns, 1 king, 2 officers
func VN_C08_evasion_generators() int { return 4 * 64 } // pawns and king; the officers' generator: VH_C08_evasion_officers_T
func VQ_C08_evasion_generators() int { return 8 }
func VF_C08_evasion_generators() int { return 16 } // pawn captures from the en-passant ranks are always included

// the first 16 cases are the pawn non-quiet generator with the target's origin on ranks 4 and 5
func vxEvasionCase(i int) int {
	if i < 16 {
		return 24 + i
	}
	n := 16
	for k := 0; k < 4*64; k++ {
		if k >= 24 && k < 40 {
			continue
		}
		if n == i {
			return k
		}
		n++
	}
	return 0
}

func VH_C08_evasion_generators(i int) { vxEvasionCheck(vxEvasionCase(i)) }

// officers (knight, bishop, rook, queen): the "omits only illegal moves" query needs 1.5-2 minutes per
// case, beyond the quick tier's per-query limit on a loaded machine: thorough tier only
func VN_C08_evasion_officers_T() int { return 2 * 64 }
func VH_C08_evasion_officers_T(i int) { vxEvasionCheck(4*64 + i) }

func vxEvasionCheck(k int) {
	gen, mode, from := (k>>6)>>1, GenMode((k>>6)&1+1), Square(k&63)
	vxStub(vxGetAttacksBb, VxGeoAttacks)
	p, s := position.VxSymPosL("", false)
	promNQ := vxBool("UsePromNonQuiet")
	config.Settings.Search.UsePromNonQuiet = promNQ
	vxAssume(s.VxInCheck(s.Stm))
	vxAssume(!s.VxInCheck(s.Stm.Flip()))
	to := Square(vxU8("t.to"))
	mt := MoveType(vxU8("t.type"))
	pr := PieceType(vxU8("t.prom"))
	vxAssume(to < 64 && mt < 4 && pr >= Knight && pr <= Queen)
	if mt != Promotion {
		pr = Knight
	}
	t := CreateMove(from, to, mt, pr)
	cnt := 0
	vxStub(vxPushBack, func(ms *moveslice.MoveSlice, m Move) {
		if m.From() == from && m.To() == to && m.MoveType() == mt && m.PromotionType() == pr {
			cnt++
		}
	})
	mg := NewMoveGen()
	ml := moveslice.NewMoveSlice(MaxMoves)
	targets := mg.getEvasionTargets(p)
	switch gen {
	case 0:
		mg.generatePawnMoves(p, mode, true, targets, ml)
	case 1:
		mg.generateKingMoves(p, mode, true, targets, ml)
	case 2:
		mg.generateMoves(p, mode, true, targets, ml)
	}
	if !vxSymbolic() {
		cnt = vxCount(ml, t)
	}
	inClass := s.VxSpecPseudoLegal(t) && vxClass(&s, t, gen, mode, promNQ)
	vxAssert(cnt <= 1, "evasion-generator-emits-no-move-twice")
	vxAssert(cnt == 0 || inClass, "evasion-generator-emits-only-pseudo-legal-moves-of-its-class")
	if inClass && s.VxSpecLegal(t) {
		vxAssert(cnt == 1, "evasion-generator-omits-only-illegal-moves")
		vxReach("evasion.legal-target")
	}
	vxReach("evasion.end")
}
