package movegen

import (
	"github.com/frankkopp/FrankyGo/internal/moveslice"
	"github.com/frankkopp/FrankyGo/internal/position"
	. "github.com/frankkopp/FrankyGo/internal/types"
)

// C08, phased on-demand generator: ONE GetNextMove call from an arbitrary reachable generator state.
//
// The four move generators are replaced by scripts: each of the seven generator invocations of a cycle
// (stage 0 pawn captures, 1 officer captures, 2 king captures, 3 pawn quiet moves, 4 castling, 5 officer
// quiet moves, 6 king quiet moves) delivers 0..2 arbitrary, pairwise distinct moves with arbitrary sort
// values - what the batch generator concatenates (the generators themselves: C01 and the evasion
// harness). The real GetNextMove / fillOnDemandMoveList / updateSortValues / Sort run on top.
//
// Rest states of the generator (between two calls), for a fixed position:
//   Init        stage odNew, list empty
//   PvPending   list == [pv], pvMovePushed, stage od1 (modes with captures) or od4 (quiet only)
//   Empty(c)    list empty, take index 0, stage c
//   Stage(k)    list == a permutation of script k (non-empty), stage succ(k), take index < length
// Invariant for an arbitrary target move t (d = how often t was delivered so far):
//   d + #occurrences of t in list[takeIndex:] and in the scripts still to come - [t == pv && pvMovePushed]
//     == [t is in a script of the mode]
// One call preserves "rest state + invariant" with d' = d + [returned == t]; MoveNone is returned only
// in state Empty(odEnd). Induction over the calls gives: every move of the mode's set is delivered
// exactly once and nothing else is. From Init the first move is the PV move if it is in the set.
const (
	vxGenPawn   = "(*github.com/frankkopp/FrankyGo/internal/movegen.Movegen).generatePawnMoves"
	vxGenMoves  = "(*github.com/frankkopp/FrankyGo/internal/movegen.Movegen).generateMoves"
	vxGenKing   = "(*github.com/frankkopp/FrankyGo/internal/movegen.Movegen).generateKingMoves"
	vxGenCastle = "(*github.com/frankkopp/FrankyGo/internal/movegen.Movegen).generateCastling"
)

const vxODPer = 2 // moves per scripted stage

type vxODScript struct {
	cnt [7]int
	mv  [7][vxODPer]Move // with sort values
}

func vxSymODScript() *vxODScript {
	sc := &vxODScript{}
	for j := 0; j < 7; j++ {
		sc.cnt[j] = int(vxU8(vxName("stage.count", j)))
		vxAssume(sc.cnt[j] >= 0 && sc.cnt[j] <= vxODPer)
		for i := 0; i < vxODPer; i++ {
			m := Move(vxU16(vxName(vxName("stage.move", j), i)))
			vxAssume(m != MoveNone)
			v := Value(vxI16(vxName(vxName("stage.value", j), i)))
			vxAssume(v > ValueNA && v < ValueMax)
			m.SetValue(v)
			sc.mv[j][i] = m
		}
	}
	for a := 0; a < 7*vxODPer; a++ {
		for b := 0; b < a; b++ {
			vxAssume(sc.mv[a/vxODPer][a%vxODPer].MoveOf() != sc.mv[b/vxODPer][b%vxODPer].MoveOf())
		}
	}
	return sc
}

func (sc *vxODScript) push(j int, ml *moveslice.MoveSlice) {
	for i := 0; i < vxODPer; i++ {
		if i < sc.cnt[j] {
			ml.PushBack(sc.mv[j][i])
		}
	}
}

func (sc *vxODScript) inStage(t Move, j int) bool {
	r := false
	for i := 0; i < vxODPer; i++ {
		if i < sc.cnt[j] && sc.mv[j][i].MoveOf() == t {
			r = true
		}
	}
	return r
}

func vxStageInMode(j int, mode GenMode) bool {
	if j < 3 {
		return mode&GenNonQuiet != 0
	}
	return mode&GenQuiet != 0
}

// occurrences of t in the scripts of the mode from stage `from` on
func (sc *vxODScript) future(t Move, from int, mode GenMode) int {
	n := 0
	for j := 0; j < 7; j++ {
		if j >= from && vxStageInMode(j, mode) && sc.inStage(t, j) {
			n++
		}
	}
	return n
}

// first script stage still to be filled when the generator's stage is c
func vxFirstFuture(c int8, mode GenMode) int {
	switch c {
	case odNew, odPv:
		if mode&GenNonQuiet != 0 {
			return 0
		}
		return 3
	case od1:
		return 0
	case od2:
		return 1
	case od3:
		return 2
	case od4, od5:
		return 3
	case od6:
		return 4
	case od7:
		return 5
	case od8:
		return 6
	}
	return 7
}

func vxSucc(k int) int8 {
	switch k {
	case 0:
		return od2
	case 1:
		return od3
	case 2:
		return od4
	case 3:
		return od6
	case 4:
		return od7
	case 5:
		return od8
	}
	return odEnd
}

// listIsStage: the generator's list is a permutation of script k
func (sc *vxODScript) listIsStage(l *moveslice.MoveSlice, k int) bool {
	if l.Len() != sc.cnt[k] || sc.cnt[k] == 0 {
		return false
	}
	a0 := (*l)[0].MoveOf()
	if sc.cnt[k] == 1 {
		return a0 == sc.mv[k][0].MoveOf()
	}
	a1 := (*l)[1].MoveOf()
	return (a0 == sc.mv[k][0].MoveOf() && a1 == sc.mv[k][1].MoveOf()) || (a0 == sc.mv[k][1].MoveOf() && a1 == sc.mv[k][0].MoveOf())
}

func vxOccInList(l *moveslice.MoveSlice, from int, t Move) int {
	n := 0
	for i := 0; i < vxODPer+1; i++ {
		if i >= from && i < l.Len() && (*l)[i].MoveOf() == t {
			n++
		}
	}
	return n
}

// restState: mg is in one of the rest states; returns the index of the first script still to come
func vxODRest(mg *Movegen, sc *vxODScript, mode GenMode, pv Move) (ok bool) {
	l := mg.onDemandMoves
	c := mg.currentODStage
	pvStage := int8(od4)
	if mode&GenNonQuiet != 0 {
		pvStage = od1
	}
	if l.Len() == 0 {
		// Init, or a list was used up (stage as left by the last fill)
		stageOK := c == odNew || c == pvStage || c == od2 || c == od3 || c == od4 || c == od6 || c == od7 || c == od8 || c == odEnd
		if mode == GenNonQuiet && (c == od6 || c == od7 || c == od8) {
			stageOK = false
		}
		if mode == GenQuiet && (c == od1 || c == od2 || c == od3) {
			stageOK = false
		}
		return mg.takeIndex == 0 && stageOK && (c != odNew || !mg.pvMovePushed)
	}
	if mg.takeIndex < 0 || mg.takeIndex >= l.Len() {
		return false
	}
	if c == pvStage && l.Len() == 1 && (*l)[0].MoveOf() == pv && pv != MoveNone && mg.pvMovePushed && mg.takeIndex == 0 &&
		!(mode != GenQuiet && c == od4) {
		return true // PvPending
	}
	for k := 0; k < 7; k++ {
		if vxStageInMode(k, mode) && c == vxSucc(k) && sc.listIsStage(l, k) {
			return true
		}
	}
	return false
}

// pvMovePushed only while the PV move was really delivered first and its copy in a script is still to come
func vxODPvFlagOK(mg *Movegen, sc *vxODScript, mode GenMode, pv Move) bool {
	if !mg.pvMovePushed {
		return true
	}
	if pv == MoveNone {
		return false
	}
	capture := sc.inStage(pv, 0) || sc.inStage(pv, 1) || sc.inStage(pv, 2)
	classOK := mode == GenAll || (mode == GenNonQuiet && capture) || (mode == GenQuiet && !capture)
	occ := vxOccInList(mg.onDemandMoves, mg.takeIndex, pv) + sc.future(pv, vxFirstFuture(mg.currentODStage, mode), mode)
	return classOK && occ >= 1
}

func vxODInvariant(mg *Movegen, sc *vxODScript, mode GenMode, pv, t Move, delivered int) bool {
	occ := vxOccInList(mg.onDemandMoves, mg.takeIndex, t) + sc.future(t, vxFirstFuture(mg.currentODStage, mode), mode)
	skip := 0
	if t == pv && mg.pvMovePushed {
		skip = 1
	}
	want := sc.future(t, 0, mode)
	return delivered+occ-skip == want
}

// case: (generation mode 1 = non-quiet, 2 = quiet, 3 = all) x (stage of the rest state before the call).
// Eight cases (a call from an early stage may run through all remaining scripts) need one to several
// minutes per query: they form the thorough-only harness.
func vxODDeep(k int) bool {
	return k == 11 || k == 16 || k == 18 || k == 22 || k == 24 || k == 26 || k == 27 || k == 29
}

// (mode all, rest stage od2) = case 25: its invariant query stayed undecided after 900 s in every solver
// of the portfolio: not claimed (recorded in MANIFEST); the neighbouring stages od1 and od3 are.
func vxODUndecided(k int) bool { return k == 25 }

func vxODNth(i int, deep bool) int {
	n := 0
	for k := 0; k < 33; k++ {
		if vxODUndecided(k) {
			continue
		}
		if vxODDeep(k) == deep {
			if n == i {
				return k
			}
			n++
		}
	}
	return 0
}

func VN_C08_on_demand_one_call() int  { return 24 }
func VH_C08_on_demand_one_call(i int) { vxODOneCall(vxODNth(i, false)) }

func VN_C08_on_demand_one_call_deep_T() int  { return 8 }
func VH_C08_on_demand_one_call_deep_T(i int) { vxODOneCall(vxODNth(i, true)) }

func vxODOneCall(k int) {
	mode := GenMode(k/11 + 1)
	preStage := int8(k % 11)
	vxUnwind(14)
	sc := vxSymODScript()
	stage := func(g int, m GenMode) int {
		if m == GenNonQuiet {
			return g // 0 pawns, 1 officers, 2 king
		}
		switch g {
		case 0:
			return 3
		case 3:
			return 4
		case 1:
			return 5
		}
		return 6
	}
	vxStub(vxGenPawn, func(mg *Movegen, p *position.Position, m GenMode, ev bool, tg Bitboard, ml *moveslice.MoveSlice) {
		sc.push(stage(0, m), ml)
	})
	vxStub(vxGenMoves, func(mg *Movegen, p *position.Position, m GenMode, ev bool, tg Bitboard, ml *moveslice.MoveSlice) {
		sc.push(stage(1, m), ml)
	})
	vxStub(vxGenKing, func(mg *Movegen, p *position.Position, m GenMode, ev bool, tg Bitboard, ml *moveslice.MoveSlice) {
		sc.push(stage(2, m), ml)
	})
	vxStub(vxGenCastle, func(mg *Movegen, p *position.Position, m GenMode, ml *moveslice.MoveSlice) {
		sc.push(stage(3, m), ml)
	})
	// the PV move: unset, or one of the scripted moves (any stage, also outside the mode)
	pv := MoveNone
	if vxBool("pv.set") {
		ps, pi := int(vxU8("pv.stage")), int(vxU8("pv.index"))
		vxAssume(ps < 7 && pi < vxODPer)
		vxAssume(pi < sc.cnt[ps])
		pv = sc.mv[ps][pi].MoveOf()
	}
	// captures are exactly the moves of the non-quiet scripts
	vxStub("(*github.com/frankkopp/FrankyGo/internal/position.Position).IsCapturingMove", func(p *position.Position, m Move) bool {
		return sc.inStage(m.MoveOf(), 0) || sc.inStage(m.MoveOf(), 1) || sc.inStage(m.MoveOf(), 2)
	})
	vxStub("(*github.com/frankkopp/FrankyGo/internal/position.Position).ZobristKey", func(p *position.Position) position.Key { return 77 })
	p := &position.Position{}
	// an arbitrary rest state
	mg := NewMoveGen()
	mg.currentODZobrist = 77
	mg.pvMove = pv
	mg.killerMoves[0] = Move(vxU16("killer0"))
	mg.killerMoves[1] = Move(vxU16("killer1"))
	mg.currentODStage = preStage
	mg.pvMovePushed = vxBool("state.pvMovePushed")
	mg.takeIndex = vxInt("state.takeIndex")
	mg.onDemandMoves = moveslice.NewMoveSlice(vxODPer + 1)
	ln := int(vxU8("state.list.len"))
	vxAssume(ln <= vxODPer)
	for i := 0; i < vxODPer; i++ {
		m := Move(vxU32(vxName("state.list", i)))
		if i < ln {
			mg.onDemandMoves.PushBack(m)
		}
	}
	t := Move(vxU16("target"))
	vxAssume(t != MoveNone)
	d := int(vxU8("delivered.so.far"))
	vxAssume(d <= 1)
	vxAssume(vxODRest(mg, sc, mode, pv))
	vxAssume(vxODPvFlagOK(mg, sc, mode, pv))
	vxAssume(vxODInvariant(mg, sc, mode, pv, t, d))
	wasInit := mg.currentODStage == odNew
	wasEnd := mg.currentODStage == odEnd && mg.onDemandMoves.Len() == 0
	vxReach("od.state")

	m := mg.GetNextMove(p, mode, false)

	if m.MoveOf() == t {
		d++
	}
	vxAssert(vxODRest(mg, sc, mode, pv), "on-demand.one-call-leads-to-a-rest-state")
	vxAssert(vxODPvFlagOK(mg, sc, mode, pv), "on-demand.pv-flag-only-while-the-pv-move-is-still-to-come")
	vxAssert(vxODInvariant(mg, sc, mode, pv, t, d), "on-demand.every-move-of-the-mode-exactly-once(invariant)")
	if m == MoveNone {
		vxAssert(mg.currentODStage == odEnd && mg.onDemandMoves.Len() == 0, "on-demand.MoveNone-only-when-exhausted")
		vxReach("od.exhausted")
	} else {
		vxAssert(!wasEnd, "on-demand.nothing-after-exhaustion")
	}
	if wasInit && pv != MoveNone && sc.future(pv, 0, mode) == 1 {
		if mode == GenQuiet {
			vxAssert(m.MoveOf() == pv, "on-demand.pv-move-of-the-set-comes-first(quiet-only-mode)")
		} else {
			vxAssert(m.MoveOf() == pv, "on-demand.pv-move-of-the-set-comes-first")
		}
		vxReach("od.pv-first")
	}
	vxReach("od.end")
}
