package movegen

import (
	"github.com/frankkopp/FrankyGo/internal/config"
	"github.com/frankkopp/FrankyGo/internal/moveslice"
	"github.com/frankkopp/FrankyGo/internal/position"
	. "github.com/frankkopp/FrankyGo/internal/types"
)

const (
	vxGetAttacksBb = "github.com/frankkopp/FrankyGo/internal/types.GetAttacksBb"
	vxPushBack     = "(*github.com/frankkopp/FrankyGo/internal/moveslice.MoveSlice).PushBack"
)

// C01 lemma L1: every generator, in every mode, produces exactly the moves the rules define for its
// class, each exactly once. Membership formulation: for one arbitrary target move t the number of
// times the generator emits t equals [t is pseudo-legal and in the class]; missing, extra and
// repeated moves are all counterexamples for some t. PushBack is replaced by the counting observer.
// gen: 0 pawns, 1 king, 2 officers (N,B,R,Q), 3 castling; mode: 1 non-quiet, 2 quiet.

func vxIsCapture(s *position.VxState, m Move) bool {
	return s.Board[m.To()] != PieceNone || m.MoveType() == EnPassant
}

// vxClass: is pseudo-legal move t in the class of (gen, mode) given the promotions-as-non-quiet switch
func vxClass(s *position.VxState, t Move, gen int, mode GenMode, promNQ bool) bool {
	pt := s.Board[t.From()].TypeOf()
	capt := vxIsCapture(s, t)
	switch gen {
	case 0:
		if pt != Pawn {
			return false
		}
		if capt {
			return mode == GenNonQuiet
		}
		if t.MoveType() == Promotion {
			// quiet promotions: Q and N count as non-quiet iff the switch is on; R and B always quiet
			major := t.PromotionType() == Queen || t.PromotionType() == Knight
			if major && promNQ {
				return mode == GenNonQuiet
			}
			return mode == GenQuiet
		}
		return mode == GenQuiet
	case 1:
		if pt != King || t.MoveType() == Castling {
			return false
		}
	case 2:
		if pt < Knight {
			return false
		}
	case 3:
		return t.MoveType() == Castling && mode == GenQuiet
	}
	if capt {
		return mode == GenNonQuiet
	}
	return mode == GenQuiet
}

func vxCount(ml *moveslice.MoveSlice, t Move) int {
	n := 0
	for _, m := range *ml {
		if m.MoveOf() == t {
			n++
		}
	}
	return n
}

// case k = gen*2 + (mode-1), times 64 for the target's origin square
func VN_C01_generators() int { return 8 * 64 }
func VQ_C01_generators() int { return 128 }
func VH_C01_generators(k int) {
	gen, mode, from := (k>>6)>>1, GenMode((k>>6)&1+1), Square(k&63)
	vxStub(vxGetAttacksBb, VxGeoAttacks)
	p, s := position.VxSymPosL("", false)
	promNQ := vxBool("UsePromNonQuiet")
	config.Settings.Search.UsePromNonQuiet = promNQ
	// target move: origin concrete, rest symbolic (canonical encoding)
	to := Square(vxU8("t.to"))
	mt := MoveType(vxU8("t.type"))
	pr := PieceType(vxU8("t.prom"))
	vxAssume(to < 64 && mt < 4 && pr >= Knight && pr <= Queen)
	if mt != Promotion {
		pr = Knight
	}
	t := CreateMove(from, to, mt, pr)
	// legal positions: the side not to move is not in check. Only targets standing on the enemy king
	// depend on it (a generated king capture would mean exactly that), so it is assumed only there.
	if s.Board[to].TypeOf() == King {
		vxAssume(!s.VxInCheck(s.Stm.Flip()))
	}
	cnt := 0
	vxStub(vxPushBack, func(ms *moveslice.MoveSlice, m Move) {
		// field-wise comparison: the origin is concrete on both sides, so pushes from other squares fold away
		if m.From() == from && m.To() == to && m.MoveType() == mt && m.PromotionType() == pr {
			cnt++
		}
	})
	mg := NewMoveGen()
	ml := moveslice.NewMoveSlice(MaxMoves)
	switch gen {
	case 0:
		mg.generatePawnMoves(p, mode, false, BbZero, ml)
	case 1:
		mg.generateKingMoves(p, mode, false, BbZero, ml)
	case 2:
		mg.generateMoves(p, mode, false, BbZero, ml)
	case 3:
		mg.generateCastling(p, mode, ml)
	}
	if !vxSymbolic() {
		cnt = vxCount(ml, t)
	}
	want := 0
	if s.VxSpecPseudoLegal(t) && vxClass(&s, t, gen, mode, promNQ) {
		want = 1
	}
	vxAssert(cnt == want, "generator-emits-target-exactly-when-rules-allow")
	vxReach("generators.end")
}
