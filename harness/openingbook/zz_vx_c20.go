package openingbook

import (
	"encoding/gob"
	"errors"
	"io"
	"os"
	"time"

	"github.com/frankkopp/FrankyGo/internal/position"
)

// C20: whatever state the cache file is in, initialisation terminates without hanging and yields the
// book built from the source file. The file system and the gob codec are environment: every call
// returns an arbitrary outcome (error or not). A damaged cache (missing, empty, truncated at any
// byte, undecodable) is exactly "Open fails" or "Decode fails, map contents arbitrary".
// bookLock is modelled by its own state word: locking a mutex this goroutine already holds is the
// hang (self-deadlock obligation); the per-line workers of the source build take the lock, which the
// stub for process reproduces.

type vxFileInfo struct{}

func (vxFileInfo) Name() string       { return "cache" }
func (vxFileInfo) Size() int64        { return 0 }
func (vxFileInfo) Mode() os.FileMode  { return 0 }
func (vxFileInfo) ModTime() time.Time { return time.Time{} }
func (vxFileInfo) IsDir() bool        { return false }
func (vxFileInfo) Sys() interface{}   { return nil }

func vxMaybeErr(name string) error {
	if vxBool(name) {
		return errors.New(name)
	}
	return nil
}

func vxC20Env(processRan *bool, mapFreshAtProcess *bool, lockFreeAtProcess *bool, b *Book) {
	vxStub("os.Stat", func(name string) (os.FileInfo, error) { return nil, vxMaybeErr("stat.fails") })
	vxStub("os.Open", func(name string) (*os.File, error) { return nil, vxMaybeErr("open.fails") })
	vxStub("os.Create", func(name string) (*os.File, error) {
		// the next os.Stat is the one after writing the cache
		vxStub("os.Stat", func(name string) (os.FileInfo, error) { return vxFileInfo{}, nil })
		return nil, vxMaybeErr("create.fails")
	})
	vxStub("(*os.File).Close", func(f *os.File) error { return nil })
	vxStub("encoding/gob.NewDecoder", func(r io.Reader) *gob.Decoder { return nil })
	vxStub("encoding/gob.NewEncoder", func(w io.Writer) *gob.Encoder { return nil })
	vxStub("(*encoding/gob.Decoder).Decode", func(d *gob.Decoder, e interface{}) error {
		// a failed or partial decode may leave anything in the map
		b.bookMap = vxArbitraryBook()
		return vxMaybeErr("decode.fails")
	})
	vxStub("(*encoding/gob.Encoder).Encode", func(d *gob.Encoder, e interface{}) error { return nil })
	vxStub("github.com/frankkopp/FrankyGo/internal/position.NewPosition", func(fen ...string) *position.Position {
		return position.VxPosPhaseStm(24, 0)
	})
	vxStub("(*github.com/frankkopp/FrankyGo/internal/openingbook.Book).readFile", func(bb *Book, path string) (*[]string, error) {
		lines := []string{}
		return &lines, vxMaybeErr("read.fails")
	})
	vxStub("(*github.com/frankkopp/FrankyGo/internal/openingbook.Book).process", func(bb *Book, lines *[]string, format BookFormat) error {
		*processRan = true
		*mapFreshAtProcess = len(bb.bookMap) == 1
		*lockFreeAtProcess = vxMutexFree(&bookLock)
		// every line worker locks the book (processSimpleLine / processSanLine / addToBook)
		bookLock.Lock()
		bookLock.Unlock()
		return nil
	})
}

func vxArbitraryBook() map[uint64]BookEntry {
	m := make(map[uint64]BookEntry)
	if vxBool("garbage.entry") {
		m[vxU64("garbage.key")] = BookEntry{ZobristKey: vxU64("garbage.zk"), Counter: vxInt("garbage.counter")}
	}
	return m
}

// native witness for the lock obligations: a real two-line book next to a 7-byte garbage cache file
func vxC20NativeWitness() {
	dir, err := os.MkdirTemp("", "vxc20")
	if err != nil {
		return
	}
	defer os.RemoveAll(dir)
	os.WriteFile(dir+"/book.txt", []byte("e2e4 e7e5\nd2d4 d7d5\n"), 0o644)
	os.WriteFile(dir+"/book.txt.cache", []byte("garbage"), 0o644)
	b := NewBook()
	done := make(chan error, 1)
	go func() { done <- b.Initialize(dir, "book.txt", Simple, true, false) }()
	select {
	case <-done:
		vxAssert(vxMutexFree(&bookLock), "initialize.returns-with-book-lock-released")
		vxAssert(b.NumberOfEntries() == 5, "damaged-cache.book-built-from-source")
		vxC20CorruptedCaches(dir)
	case <-time.After(3 * time.Second):
		vxAssert(false, "book-lock-self-deadlock")
		vxAssert(false, "initialize.returns-with-book-lock-released")
		vxAssert(false, "source-build-starts-with-book-lock-released")
	}
}

// native witness for "the source build starts from a fresh map": a valid cache of a small book with one
// byte changed at every offset in turn (a decode that fails half way leaves entries behind); the book
// must always equal the one built from the source
func vxC20CorruptedCaches(dir string) {
	src := "e2e4 e7e5 g1f3\ne2e4 c7c5\nd2d4 d7d5 c2c4\nd2d4 g8f6\n"
	os.WriteFile(dir+"/b2.txt", []byte(src), 0o644)
	ref := NewBook()
	if ref.Initialize(dir, "b2.txt", Simple, true, true) != nil {
		return
	}
	good, err := os.ReadFile(dir + "/b2.txt.cache")
	if err != nil || len(good) == 0 {
		return
	}
	same := func(x *Book) bool {
		if len(x.bookMap) != len(ref.bookMap) {
			return false
		}
		for k, e := range ref.bookMap {
			o, ok := x.bookMap[k]
			if !ok || o.Counter != e.Counter || len(o.Moves) != len(e.Moves) {
				return false
			}
		}
		return true
	}
	ok := true
	for i := 0; i < len(good) && ok; i++ {
		bad := append([]byte(nil), good...)
		bad[i] ^= 0xff
		os.WriteFile(dir+"/b2.txt.cache", bad, 0o644)
		x := NewBook()
		done := make(chan error, 1)
		go func() { done <- x.Initialize(dir, "b2.txt", Simple, true, false) }()
		select {
		case e := <-done:
			if e != nil || !same(x) {
				// an undetected corruption of a counter byte decodes "successfully" into a different book:
				// that is the codec's contract (no checksum), not the rebuild path - only count failures
				// in which the decode reported an error, i.e. the cache was rejected and the source built
				if x.initialized && !same(x) {
					ok = false
				}
			}
		case <-time.After(3 * time.Second):
			ok = false
		}
	}
	vxAssert(ok, "source-build-starts-from-a-fresh-map")
}

func VH_C20_damaged_cache() {
	if !vxSymbolic() {
		vxC20NativeWitness()
		return
	}
	vxOpt("deadlock-id", "book-lock-self-deadlock")
	b := &Book{}
	var processRan, mapFresh, lockFree bool
	vxC20Env(&processRan, &mapFresh, &lockFree, b)
	useCache := vxBool("useCache")
	recreate := vxBool("recreateCache")
	err := b.initialize("book.txt", Simple, useCache, recreate)
	statFails, openFails, decodeFails, readFails := vxBool("stat.fails.q"), false, false, false
	_, _, _, _ = statFails, openFails, decodeFails, readFails
	// never leaves the lock held, whatever happened
	vxAssert(vxMutexFree(&bookLock), "initialize.returns-with-book-lock-released")
	if err == nil && !b.initialized {
		// the only successful return without building from source is a cache hit
		vxAssert(!processRan, "cache-hit-skips-source-build")
	}
	if processRan {
		vxAssert(lockFree, "source-build-starts-with-book-lock-released")
		vxAssert(mapFresh, "source-build-starts-from-a-fresh-map")
		vxReach("c20.source-build")
	}
	vxReach("c20.end")
}

