package search

import (
	"time"

	"github.com/frankkopp/FrankyGo/internal/position"
	. "github.com/frankkopp/FrankyGo/internal/types"
)

// C13 (clock budget): the time allotted to a move never exceeds the mover's remaining clock time
// and, repeated for the announced moves-to-go (or >= 15 moves when none is announced), fits into
// the remaining time plus the increments. Case k: 1..64 = announced moves-to-go; 65+p = none
// announced and game phase p (0..24). Times and increments symbolic, 0 <= t < 2^44 ns (4.9 h).
func VN_C13_clock_budget() int { return 65 + 25 }
func VQ_C13_clock_budget() int { return 12 }
func VH_C13_clock_budget(k int) {
	vxOpt("abstract-div", "on")
	if k == 0 {
		k = 1
	}
	mtg, phase := k, vxInt("gamePhase")
	vxAssume(phase >= 0 && phase <= 24)
	if k > 64 {
		mtg, phase = 0, k-65
	}
	stm := Color(vxU8("stm"))
	vxAssume(stm < 2)
	p := position.VxPosPhaseStm(phase, stm)
	sl := &Limits{TimeControl: true, MovesToGo: mtg}
	sl.WhiteTime = time.Duration(vxI64("wtime"))
	sl.BlackTime = time.Duration(vxI64("btime"))
	sl.WhiteInc = time.Duration(vxI64("winc"))
	sl.BlackInc = time.Duration(vxI64("binc"))
	const lim = int64(1) << 44
	vxAssume(sl.WhiteTime >= 0 && int64(sl.WhiteTime) < lim && sl.BlackTime >= 0 && int64(sl.BlackTime) < lim)
	vxAssume(sl.WhiteInc >= 0 && int64(sl.WhiteInc) < lim && sl.BlackInc >= 0 && int64(sl.BlackInc) < lim)
	s := &Search{}
	limit := int64(s.setupTimeControl(p, sl))
	remaining, inc := int64(sl.WhiteTime), int64(sl.WhiteInc)
	if stm == Black {
		remaining, inc = int64(sl.BlackTime), int64(sl.BlackInc)
	}
	moves := int64(mtg)
	if mtg == 0 {
		moves = 15 // "at least 15 moves when none is announced"
	}
	vxAssert(limit >= 0, "budget.non-negative")
	vxAssert(limit <= remaining, "budget<=remaining-clock-time")
	// moves*budget <= remaining + moves*increment, decomposed (the monolithic form mixes a product,
	// a quotient and two float conversions and is kept for the thorough tier below):
	//   q := (remaining + ML*inc)/ML is the per-move share the engine computes (ML = its moves-left
	//   estimate, >= moves); (L1) budget <= q; (L2) moves*q <= remaining + moves*inc.
	ml := int64(mtg)
	if mtg == 0 {
		ml = int64(15 + (25 * p.GamePhaseFactor()))
	}
	vxAssert(ml >= moves, "moves-left-estimate>=15-when-none-announced")
	q := (remaining + ml*inc) / ml
	vxAssert(q >= 0 && q < int64(1)<<51, "per-move-share-in-range")
	if vxTier() == 1 {
		// (L1) needs floating-point reasoning that takes 30-110 s per case: thorough tier only
		vxAssume(q >= 0 && q < int64(1)<<51) // cut: established by the obligation above
		vxAssert(limit <= q, "budget<=per-move-share")
	}
	vxAssert(moves*q <= remaining+moves*inc, "moves*share<=remaining+moves*increment")
	vxReach("clock_budget.end")
}

// fixed move time: the budget never exceeds the move time
func VH_C13_movetime_budget() {
	p := position.VxPosPhaseStm(0, White)
	sl := &Limits{TimeControl: true}
	sl.MoveTime = time.Duration(vxI64("movetime"))
	vxAssume(sl.MoveTime > 0 && int64(sl.MoveTime) < int64(1)<<44)
	s := &Search{}
	limit := s.setupTimeControl(p, sl)
	vxAssert(limit <= sl.MoveTime && limit >= 0, "movetime.budget<=movetime")
}

// Limits are per search: a second search on the same Search instance (depth limit only, no stop
// request) must not be stopped by anything the first search left behind - its node limit, its time
// budget, its stop flag. Both searches run through the real run() / setupSearchLimits /
// stopConditions; iterativeDeepening is replaced by a probe that visits an arbitrary number of nodes
// and asks stopConditions().
func VH_C13_second_search_uses_only_its_own_limits() {
	vxOpt("go", "inline")
	vxOpt("replay", "abstract")
	vxUnwind(4)
	s := vxLifecycleSearch()
	results, sent := 0, false
	vxLifecycleStubs(s, &results, &sent)
	second, stoppedByLeftover := false, false
	vxStub(vxIterDeep, func(ss *Search, p *position.Position) *Result {
		if !second {
			ss.nodesVisited = vxU64("first.nodes-visited")
			ss.stopFlag = vxBool("first.stopped")
		} else {
			ss.nodesVisited = vxU64("second.nodes-visited")
			if ss.stopConditions() {
				stoppedByLeftover = true
			}
		}
		return &Result{}
	})
	p := position.VxPosPhaseStm(0, White)
	sl1 := &Limits{Depth: 1, Nodes: vxU64("first.node-limit"), TimeControl: vxBool("first.time-control")}
	sl1.MoveTime = time.Duration(vxI64("first.movetime"))
	vxAssume(int64(sl1.MoveTime) > 0 && int64(sl1.MoveTime) < int64(1)<<44)
	s.searchLimits = sl1
	s.initSemaphore.TryAcquire(1)
	s.run(p, sl1)
	second = true
	sl2 := &Limits{Depth: 5}
	s.searchLimits = sl2
	s.initSemaphore.TryAcquire(1)
	s.run(p, sl2)
	vxAssert(results == 2, "both-searches-deliver-a-result")
	vxAssert(!stoppedByLeftover, "second-search-not-stopped-by-limits-of-the-first")
	vxAssert(s.timeLimit == 0 && s.extraTime == 0, "second-search-has-no-time-budget-left-over")
	vxReach("c13.second-search.end")
}
