package search

import (
	. "github.com/frankkopp/FrankyGo/internal/types"
)

// C11 (value half): mate scores survive the ply adjustment applied around the table.
// Domain: every score a node at `ply` can produce: |v| <= mate - ply (a mate cannot be closer
// than the node itself), ply within the engine's MaxDepth.
func VH_C11_value_to_from_tt() {
	v := Value(vxI16("v"))
	ply := vxInt("ply")
	vxAssume(ply >= 0 && ply <= MaxDepth)
	vxAssume(int(v) <= int(ValueCheckMate)-ply && int(v) >= -int(ValueCheckMate)+ply)
	st := valueToTT(v, ply)
	vxAssert(st.IsValid(), "valueToTT.storable")
	vxAssert(valueFromTT(st, ply) == v, "valueFromTT(valueToTT(v))==v")
	// reading at another ply re-bases the mate distance
	ply2 := vxInt("ply2")
	vxAssume(ply2 >= 0 && ply2 <= MaxDepth)
	if v.IsCheckMateValue() && valueFromTT(st, ply2).IsCheckMateValue() {
		if v > 0 {
			vxAssert(int(valueFromTT(st, ply2)) == int(v)+ply-ply2, "valueFromTT.rebase-positive")
		} else {
			vxAssert(int(valueFromTT(st, ply2)) == int(v)-ply+ply2, "valueFromTT.rebase-negative")
		}
		vxReach("tt-value.mate")
	}
	vxReach("tt-value.end")
}
