package search

import (
	. "github.com/frankkopp/FrankyGo/internal/config"
	"github.com/frankkopp/FrankyGo/internal/history"
	"github.com/frankkopp/FrankyGo/internal/movegen"
	"github.com/frankkopp/FrankyGo/internal/moveslice"
	"github.com/frankkopp/FrankyGo/internal/position"
	"github.com/frankkopp/FrankyGo/internal/transpositiontable"
	. "github.com/frankkopp/FrankyGo/internal/types"
)

// One-node harness for the real search() / qsearch(): everything below the node is a contract.
//  * the move generator is a script of K <= vxK pseudo-legal moves followed by MoveNone (C01/C08),
//  * each scripted move has arbitrary attributes (legal, capture, gives check, victim value),
//  * DoMove/UndoMove only track which scripted move is on the board,
//  * recursive search/qsearch calls, the static evaluation, the hash table probe and the draw test
//    return arbitrary values (constrained per property),
//  * all search switches are symbolic.

const vxK = 3

const (
	vxPosPfx = "(*github.com/frankkopp/FrankyGo/internal/position.Position)."
	vxSrchPfx = "(*github.com/frankkopp/FrankyGo/internal/search.Search)."
)

type vxNode struct {
	k          int
	moves      [vxK]Move
	legal      [vxK]bool
	capture    [vxK]bool
	givesCheck [vxK]bool
	victim     [vxK]Piece
	next, cur  int
	hasCheck   bool
	nonPawn    Value
	// observations
	childCalls int
}

func vxSymNode() *vxNode {
	n := &vxNode{}
	n.k = vxInt("node.K")
	vxAssume(n.k >= 0 && n.k <= vxK)
	for i := 0; i < vxK; i++ {
		n.moves[i] = Move(vxU16(vxName("node.move", i)))
		vxAssume(n.moves[i] != MoveNone)
		n.legal[i] = vxBool(vxName("node.legal", i))
		n.capture[i] = vxBool(vxName("node.capture", i))
		n.givesCheck[i] = vxBool(vxName("node.givesCheck", i))
		n.victim[i] = Piece(vxI8(vxName("node.victim", i)))
		vxAssume(n.victim[i] >= 0 && n.victim[i] < 15 && n.victim[i] != 7 && n.victim[i] != 8)
		for j := 0; j < i; j++ {
			vxAssume(n.moves[i] != n.moves[j])
		}
	}
	n.hasCheck = vxBool("node.hasCheck")
	n.nonPawn = Value(vxI16("node.materialNonPawn"))
	vxAssume(n.nonPawn >= 0 && n.nonPawn <= 8000)
	return n
}

func (n *vxNode) anyLegal() bool {
	r := false
	for i := 0; i < vxK; i++ {
		if i < n.k && n.legal[i] {
			r = true
		}
	}
	return r
}

func vxSymSearchSwitches(soundOnly bool) {
	S := &Settings.Search
	S.UsePVS = vxBool("UsePVS")
	S.UseKiller = vxBool("UseKiller")
	S.UseIID = vxBool("UseIID")
	S.UseMDP = vxBool("UseMDP")
	S.UseTTMove = vxBool("UseTTMove")
	S.UseHistoryCounter = false // ordering tables only feed the (scripted) generator
	S.UseCounterMoves = false
	S.UseQSStandpat = vxBool("UseQSStandpat")
	S.UseQuiescence = vxBool("UseQuiescence")
	if soundOnly {
		S.UseRazoring, S.UseRFP, S.UseNullMove, S.UseExt, S.UseFP, S.UseQFP, S.UseLmp, S.UseLmr = false, false, false, false, false, false, false, false
		S.UseTT = vxBool("UseTT")
		S.UseTTValue = false // hash table for move ordering only
		S.UseQSTT, S.UseEvalTT = false, false
		return
	}
	S.UseTT = vxBool("UseTT")
	S.UseTTValue = vxBool("UseTTValue")
	S.UseQSTT = vxBool("UseQSTT")
	S.UseEvalTT = false
	S.UseRazoring = vxBool("UseRazoring")
	S.UseRFP = vxBool("UseRFP")
	S.UseNullMove = vxBool("UseNullMove")
	S.UseExt = vxBool("UseExt")
	S.UseExtAddDepth = vxBool("UseExtAddDepth")
	S.UseCheckExt = vxBool("UseCheckExt")
	S.UseThreatExt = vxBool("UseThreatExt")
	S.UseFP = vxBool("UseFP")
	S.UseQFP = vxBool("UseQFP")
	S.UseLmp = vxBool("UseLmp")
	S.UseLmr = vxBool("UseLmr")
}

// vxNodeSearch builds a Search object around the scripted node and installs the contracts.
// childValue is called for every recursive search/qsearch invocation.
func vxNodeSearch(n *vxNode, ply int, childValue func(p *position.Position, depth, ply int, alpha, beta Value) Value) (*Search, *position.Position) {
	s := &Search{}
	s.history = history.NewHistory()
	s.searchLimits = &Limits{}
	for i := 0; i <= ply+2; i++ {
		s.mg = append(s.mg, movegen.NewMoveGen())
		s.pv = append(s.pv, moveslice.NewMoveSlice(16))
	}
	s.statistics.CurrentVariation = *moveslice.NewMoveSlice(16)
	p := position.VxPosPhaseStm(vxPhase(), Color(vxU8("node.stm")&1))
	vxStub(vxSrchPfx+"stopConditions", func(ss *Search) bool { return false })
	vxStub(vxSrchPfx+"sendSearchUpdateToUci", func(ss *Search) {})
	vxStub(vxSrchPfx+"storeTT", func(ss *Search, pp *position.Position, depth int, ply int, move Move, value Value, vt ValueType) {
		vxPrint("storeTT.value", value)
		vxPrint("storeTT.type", vt)
	})
	vxStub(vxSrchPfx+"getPVLine", func(ss *Search, pp *position.Position, pv *moveslice.MoveSlice, depth int) {})
	vxStub(vxSrchPfx+"evaluate", func(ss *Search, pp *position.Position, ply int) Value {
		v := Value(vxFreshI16("staticEval"))
		vxAssume(v > -ValueCheckMateThreshold && v < ValueCheckMateThreshold)
		return v
	})
	vxStub(vxSrchPfx+"checkDrawRepAnd50", func(ss *Search, pp *position.Position, i int) bool { return vxFreshBool("childIsDraw") })
	vxStub(vxSrchPfx+"goodCapture", func(ss *Search, pp *position.Position, m Move) bool { return vxFreshBool("goodCapture") })
	vxStub("(*github.com/frankkopp/FrankyGo/internal/transpositiontable.TtTable).Probe", func(tt *transpositiontable.TtTable, key position.Key) *transpositiontable.TtEntry {
		if vxFreshBool("ttHit") {
			e := &transpositiontable.TtEntry{}
			e.Move = Move(vxFreshI16("tt.move")) | Move(uint16(vxFreshI16("tt.value")))<<16
			e.Depth = int8(vxFreshI16("tt.depth"))
			e.Type = ValueType(vxFreshI16("tt.type") & 3)
			return e
		}
		return nil
	})
	// the scripted generator
	vxStub("(*github.com/frankkopp/FrankyGo/internal/movegen.Movegen).GetNextMove", func(mg *movegen.Movegen, pp *position.Position, mode movegen.GenMode, evasion bool) Move {
		if n.next < n.k {
			m := n.moves[n.next]
			n.next++
			return m
		}
		return MoveNone
	})
	vxStub("(*github.com/frankkopp/FrankyGo/internal/movegen.Movegen).HasLegalMove", func(mg *movegen.Movegen, pp *position.Position) bool {
		return n.anyLegal() // C08: HasLegalMove == (legal move list non-empty)
	})
	// the position: only what the node asks about the scripted moves
	idx := func(m Move) int {
		r := 0
		for i := 0; i < vxK; i++ {
			if n.moves[i] == m.MoveOf() {
				r = i
			}
		}
		return r
	}
	vxStub(vxPosPfx+"DoMove", func(pp *position.Position, m Move) { n.cur = idx(m) })
	vxStub(vxPosPfx+"UndoMove", func(pp *position.Position) {})
	vxStub(vxPosPfx+"DoNullMove", func(pp *position.Position) {})
	vxStub(vxPosPfx+"UndoNullMove", func(pp *position.Position) {})
	vxStub(vxPosPfx+"WasLegalMove", func(pp *position.Position) bool { return n.legal[n.cur] })
	vxStub(vxPosPfx+"HasCheck", func(pp *position.Position) bool { return n.hasCheck })
	vxStub(vxPosPfx+"GivesCheck", func(pp *position.Position, m Move) bool { return n.givesCheck[idx(m)] })
	vxStub(vxPosPfx+"IsCapturingMove", func(pp *position.Position, m Move) bool { return n.capture[idx(m)] })
	vxStub(vxPosPfx+"GetPiece", func(pp *position.Position, sq Square) Piece { return n.victim[n.next-1] })
	vxStub(vxPosPfx+"MaterialNonPawn", func(pp *position.Position, c Color) Value { return n.nonPawn })
	vxStub(vxPosPfx+"LastMove", func(pp *position.Position) Move { return MoveNone })
	vxStub(vxPosPfx+"ZobristKey", func(pp *position.Position) position.Key { return 1 })
	// recursive calls
	vxStubNested(vxSrchPfx+"search", func(ss *Search, pp *position.Position, depth int, ply int, alpha Value, beta Value, isPV bool, doNull bool) Value {
		n.childCalls++
		return childValue(pp, depth, ply, alpha, beta)
	})
	vxStub(vxSrchPfx+"qsearch", func(ss *Search, pp *position.Position, ply int, alpha Value, beta Value, isPV bool) Value {
		n.childCalls++
		return childValue(pp, 0, ply, alpha, beta)
	})
	return s, p
}

func vxPhase() int {
	ph := vxInt("node.gamePhase")
	vxAssume(ph >= 0 && ph <= 24)
	return ph
}

func vxAnyChildValue(p *position.Position, depth, ply int, alpha, beta Value) Value {
	v := Value(vxFreshI16("childValue"))
	vxAssume(v >= ValueMin && v <= ValueMax)
	return v
}

// C07: whenever search() scores a node as checkmate or stalemate, no scripted move is legal (the
// script is the complete pseudo-legal list), and it is in check for mate / not in check for
// stalemate. All switches symbolic (default configuration included).
func VH_C07_search_node_classification() {
	vxOpt("replay", "abstract")
	vxUnwind(vxK + 3)
	vxSymSearchSwitches(false)
	n := vxSymNode()
	const ply = 1
	s, p := vxNodeSearch(n, ply, vxAnyChildValue)
	s.tt = &transpositiontable.TtTable{}
	depth := vxInt("depth")
	vxAssume(depth >= 1 && depth <= 12)
	alpha, beta := Value(vxI16("alpha")), Value(vxI16("beta"))
	vxAssume(alpha >= ValueMin && alpha < beta && beta <= ValueMax)
	isPV, doNull := vxBool("isPV"), vxBool("doNull")
	st0, cm0 := s.statistics.Stalemates, s.statistics.Checkmates
	v := s.search(p, depth, ply, alpha, beta, isPV, doNull)
	if s.statistics.Stalemates > st0 {
		vxAssert(!n.anyLegal(), "search.stalemate-scored-only-without-legal-move")
		vxAssert(!n.hasCheck, "search.stalemate-scored-only-when-not-in-check")
		vxAssert(v == ValueDraw, "search.stalemate-value-is-draw")
		vxReach("c07.stalemate")
	}
	if s.statistics.Checkmates > cm0 {
		vxAssert(!n.anyLegal(), "search.mate-scored-only-without-legal-move")
		vxAssert(n.hasCheck, "search.mate-scored-only-when-in-check")
		vxAssert(v == -ValueCheckMate+Value(ply), "search.mate-value")
		vxReach("c07.mate")
	}
	vxReach("c07.end")
}

// C07 for quiescence: a mate scored in qsearch means in check and no legal scripted move (in check
// qsearch generates all moves and prunes none).
func VH_C07_qsearch_node_classification() {
	vxOpt("replay", "abstract")
	vxUnwind(vxK + 3)
	vxSymSearchSwitches(false)
	Settings.Search.UseQuiescence = true
	n := vxSymNode()
	const ply = 2
	s, p := vxNodeSearch(n, ply, vxAnyChildValue)
	s.tt = &transpositiontable.TtTable{}
	vxUnstub(vxSrchPfx + "qsearch")
	vxStubNested(vxSrchPfx+"qsearch", func(ss *Search, pp *position.Position, ply int, alpha Value, beta Value, isPV bool) Value {
		return vxAnyChildValue(pp, 0, ply, alpha, beta)
	})
	alpha, beta := Value(vxI16("alpha")), Value(vxI16("beta"))
	vxAssume(alpha >= ValueMin && alpha < beta && beta <= ValueMax)
	cm0 := s.statistics.Checkmates
	v := s.qsearch(p, ply, alpha, beta, vxBool("isPV"))
	if s.statistics.Checkmates > cm0 {
		vxAssert(!n.anyLegal() && n.hasCheck, "qsearch.mate-scored-only-in-check-without-legal-move")
		vxAssert(v == -ValueCheckMate+Value(ply), "qsearch.mate-value")
		vxReach("c07.qmate")
	}
	vxAssert(s.statistics.Stalemates == 0, "qsearch.never-scores-stalemate")
	vxReach("c07.q.end")
}

// ---- C06: with only sound techniques the node value is exact (fail-soft contract, inductive) ----
//
// Ghost true values: t[i] = minimax value of the child after scripted move i, from the child's side;
// children that are draws by repetition / 50 moves have value 0 and are not searched.
// Contract of a recursive call with window (a,b) on child i: it returns v with
//   v <= a  =>  t[i] <= v,     v >= b  =>  t[i] >= v,     otherwise v == t[i].
// The node's true value T = max over legal i of -t[i]  (mate/stalemate score without legal move).
// Obligation: search() returns r satisfying the same contract for T and its own window (alpha,beta).

func VH_C06_search_node_exact() {
	vxOpt("replay", "abstract")
	vxUnwind(vxK + 3)
	vxSymSearchSwitches(true)
	n := vxSymNode()
	const ply = 1
	var t [vxK]Value
	var isDraw [vxK]bool
	for i := 0; i < vxK; i++ {
		t[i] = Value(vxI16(vxName("true.child", i)))
		// a child's value is a leaf evaluation or a mate score seen from ply+1
		vxAssume(t[i] >= -ValueCheckMate+Value(ply+1) && t[i] <= ValueCheckMate-Value(ply+1))
		isDraw[i] = vxBool(vxName("child.isDraw", i))
		if isDraw[i] {
			t[i] = ValueDraw
		}
	}
	s, p := vxNodeSearch(n, ply, func(pp *position.Position, depth, cply int, a, b Value) Value {
		v := Value(vxFreshI16("childResult"))
		vxAssume(v >= ValueMin && v <= ValueMax)
		vxPrint("child-call-cur", n.cur)
		vxPrint("child-a", a)
		vxPrint("child-b", b)
		vxPrint("child-v", v)
		if cply == ply+1 {
			ti := t[n.cur]
			vxAssume(!(v <= a) || ti <= v)
			vxAssume(!(v >= b) || ti >= v)
			vxAssume(v <= a || v >= b || v == ti)
		}
		return v
	})
	s.tt = &transpositiontable.TtTable{}
	vxStub(vxSrchPfx+"checkDrawRepAnd50", func(ss *Search, pp *position.Position, i int) bool { return isDraw[n.cur] })
	depth := vxInt("depth")
	vxAssume(depth >= 1 && depth <= 12)
	alpha, beta := Value(vxI16("alpha")), Value(vxI16("beta"))
	vxAssume(alpha >= ValueMin && alpha < beta && beta <= ValueMax)
	isPV := vxBool("isPV")
	r := s.search(p, depth, ply, alpha, beta, isPV, true)
	vxPrint("r", r)
	vxPrint("movesSearched-next", n.next)
	// the node's true value
	T := ValueNA
	for i := 0; i < vxK; i++ {
		if i < n.k && n.legal[i] && -t[i] > T {
			T = -t[i]
		}
	}
	if !n.anyLegal() {
		if n.hasCheck {
			T = -ValueCheckMate + Value(ply)
		} else {
			T = ValueDraw
		}
	}
	if r <= alpha {
		vxAssert(T <= r, "search.fail-low-result-is-an-upper-bound")
		vxReach("c06.fail-low")
	} else if r >= beta {
		vxAssert(T >= r, "search.fail-high-result-is-a-lower-bound")
		vxReach("c06.fail-high")
	} else {
		vxAssert(r == T, "search.in-window-result-is-exact")
		vxReach("c06.exact")
	}
	vxReach("c06.end")
}

// ---- root: terminal roots (C07), best move among the root moves (C05) ----

func VH_C07_terminal_root() {
	vxOpt("replay", "abstract")
	vxSymSearchSwitches(false)
	n := vxSymNode()
	s, p := vxNodeSearch(n, 0, vxAnyChildValue)
	s.tt = &transpositiontable.TtTable{}
	vxStub(vxSrchPfx+"checkDrawRepAnd50", func(ss *Search, pp *position.Position, i int) bool { return false })
	vxStub(vxSrchPfx+"sendInfoStringToUci", func(ss *Search, m string) {})
	empty := moveslice.NewMoveSlice(8)
	vxStub("(*github.com/frankkopp/FrankyGo/internal/movegen.Movegen).GenerateLegalMoves", func(mg *movegen.Movegen, pp *position.Position, mode movegen.GenMode) *moveslice.MoveSlice {
		return empty
	})
	res := s.iterativeDeepening(p)
	if n.hasCheck {
		vxAssert(res.BestValue == -ValueCheckMate, "root-without-legal-moves-in-check-is-mated")
	} else {
		vxAssert(res.BestValue == ValueDraw, "root-without-legal-moves-not-in-check-is-draw")
	}
	vxAssert(res.BestMove == MoveNone, "terminal-root-has-no-best-move")
	vxReach("c07.root.end")
}

// C05 (root): one root iteration. With at least one legal root move, whatever the children return
// (including "stopped") and whenever stop arrives, after rootSearch the root PV is non-empty and
// starts with one of the legal root moves (iterativeDeepening reports pv[0][0] as best move), and
// neither the root move list nor the PV buffers are indexed out of range.
func VH_C05_root_iteration_best_move_is_legal() {
	vxOpt("replay", "abstract")
	vxUnwind(vxK + 3)
	vxSymSearchSwitches(false)
	Settings.Search.UseTT = false
	n := vxSymNode()
	s, p := vxNodeSearch(n, 0, func(pp *position.Position, depth, ply int, a, b Value) Value {
		v := Value(vxFreshI16("childValue"))
		vxAssume((v >= ValueMin && v <= ValueMax) || v == ValueNA) // ValueNA: the child was stopped
		return v
	})
	// at the root every call of search() is a child: contract for all of them
	vxStub(vxSrchPfx+"search", func(ss *Search, pp *position.Position, depth int, ply int, alpha Value, beta Value, isPV bool, doNull bool) Value {
		v := Value(vxFreshI16("childValue"))
		vxAssume((v >= ValueMin && v <= ValueMax) || v == ValueNA) // ValueNA: the child was stopped
		return v
	})
	stopped := false
	vxStub(vxSrchPfx+"stopConditions", func(ss *Search) bool {
		if vxFreshBool("stop-arrives") {
			stopped = true
		}
		return stopped
	})
	k := vxInt("root.K")
	vxAssume(k >= 1 && k <= vxK)
	root := moveslice.NewMoveSlice(8)
	for i := 0; i < vxK; i++ {
		if i < k {
			root.PushBack(n.moves[i])
		}
	}
	s.rootMoves = root
	// savePV is observed here (its own behaviour: VH_C05_savePV)
	saves, first := 0, MoveNone
	vxStub("github.com/frankkopp/FrankyGo/internal/search.savePV", func(m Move, src *moveslice.MoveSlice, dest *moveslice.MoveSlice) {
		vxAssert(dest == ss0(s) && src == ss1(s), "rootSearch-saves-into-pv0-from-pv1")
		saves++
		first = m.MoveOf()
	})
	depth := vxInt("depth")
	vxAssume(depth >= 1 && depth <= 12)
	s.rootSearch(p, depth, ValueMin, ValueMax)
	// the first iteration always completes (a stop request does not abort depth 1); later iterations
	// either overwrite the root PV with another root move or leave it as it was: by induction over
	// the iterations pv[0][0] is a legal root move whenever iterativeDeepening reads it
	if depth == 1 {
		vxAssert(saves >= 1, "root-pv-written-in-the-first-iteration")
	}
	isRoot := saves == 0
	for i := 0; i < vxK; i++ {
		if i < k && first == n.moves[i] {
			isRoot = true
		}
	}
	vxAssert(isRoot, "root-pv-starts-with-a-legal-root-move")
	vxReach("c05.root.end")
}

// C05: a root that is a draw by repetition or the 50-move rule still has legal moves: a best move
// must be reported.
func VH_C05_draw_at_root_reports_a_move() {
	vxOpt("replay", "abstract")
	vxSymSearchSwitches(false)
	n := vxSymNode()
	s, p := vxNodeSearch(n, 0, vxAnyChildValue)
	vxStub(vxSrchPfx+"sendInfoStringToUci", func(ss *Search, m string) {})
	rootIsDraw := vxBool("root.is-draw-by-repetition-or-50-moves")
	vxAssume(rootIsDraw)
	vxStub(vxSrchPfx+"checkDrawRepAnd50", func(ss *Search, pp *position.Position, i int) bool { return rootIsDraw })
	vxStub(vxSrchPfx+"rootSearch", func(ss *Search, pp *position.Position, depth int, alpha Value, beta Value) Value {
		ss.pv[0].Clear()
		ss.pv[0].PushBack(n.moves[0])
		return 0
	})
	root := moveslice.NewMoveSlice(8)
	root.PushBack(n.moves[0])
	vxStub("(*github.com/frankkopp/FrankyGo/internal/movegen.Movegen).GenerateLegalMoves", func(mg *movegen.Movegen, pp *position.Position, mode movegen.GenMode) *moveslice.MoveSlice {
		return root
	})
	s.searchLimits.Depth = 1
	res := s.iterativeDeepening(p)
	vxAssert(res.BestMove == n.moves[0], "draw-at-root.best-move-reported")
	vxReach("c05.draw-root.end")
}

func ss0(s *Search) *moveslice.MoveSlice { return s.pv[0] }
func ss1(s *Search) *moveslice.MoveSlice { return s.pv[1] }

// savePV: dest becomes the move followed by the source line (lengths up to 3)
func VH_C05_savePV() {
	src := moveslice.NewMoveSlice(8)
	dest := moveslice.NewMoveSlice(8)
	var line [3]Move
	n := vxInt("src.len")
	vxAssume(n >= 0 && n <= 3)
	for i := 0; i < 3; i++ {
		line[i] = Move(vxU32(vxName("src", i)))
		if i < n {
			src.PushBack(line[i])
		}
	}
	old := vxInt("dest.len")
	vxAssume(old >= 0 && old <= 3)
	for i := 0; i < 3; i++ {
		if i < old {
			dest.PushBack(Move(vxU32(vxName("destOld", i))))
		}
	}
	m := Move(vxU32("move"))
	savePV(m, src, dest)
	vxAssert(dest.Len() == n+1, "savePV.length")
	vxAssert((*dest)[0] == m, "savePV.first-is-the-move")
	for i := 0; i < 3; i++ {
		if i < n {
			vxAssert((*dest)[i+1] == line[i], "savePV.rest-is-the-child-line")
		}
	}
	vxReach("savePV.end")
}

// C05 (PV clause, one node): the line a node reports is its move followed by the line of THAT move's
// own child search - never a continuation left behind by a sibling. Children that are searched leave
// their own line (here: a marker naming the child) or none in pv[ply+1]; a child that is scored without
// being searched (draw by repetition / 50 moves) has no line. With the induction hypothesis "a child's
// line is a playable sequence from the child position" this is the inductive step of "every reported
// PV (and the ponder move, pv[0][1]) is playable".
func VH_C05_node_pv_continuation_belongs_to_its_move() {
	vxOpt("replay", "abstract")
	vxUnwind(vxK + 3)
	vxSymSearchSwitches(true)
	Settings.Search.UseIID = false // IID re-enters the same ply; its line is overwritten by the real search of the node
	n := vxSymNode()
	const ply = 1
	var s *Search
	child := func(pp *position.Position, depth, cply int, a, b Value) Value {
		s.pv[cply].Clear()
		if vxFreshBool("child.reports-a-line") {
			s.pv[cply].PushBack(Move(1000 + n.cur))
		}
		return vxAnyChildValue(pp, depth, cply, a, b)
	}
	s2, p := vxNodeSearch(n, ply, child)
	s = s2
	s.tt = &transpositiontable.TtTable{}
	depth := vxInt("depth")
	vxAssume(depth >= 1 && depth <= 12)
	alpha, beta := Value(vxI16("alpha")), Value(vxI16("beta"))
	vxAssume(alpha >= ValueMin && alpha < beta && beta <= ValueMax)
	s.search(p, depth, ply, alpha, beta, true, false)
	pv := s.pv[ply]
	if pv.Len() > 0 {
		first := pv.At(0).MoveOf()
		found, at := false, 0
		for i := 0; i < vxK; i++ {
			if i < n.k && n.moves[i] == first {
				found, at = true, i
			}
		}
		vxAssert(found, "node-pv-starts-with-a-move-of-the-node")
		vxAssert(!found || n.legal[at], "node-pv-starts-with-a-legal-move")
		if found && pv.Len() > 1 {
			vxAssert(pv.Len() == 2 && pv.At(1) == Move(1000+at), "node-pv-continuation-is-the-line-of-the-move-it-follows")
			vxReach("c05.pv.with-continuation")
		}
		vxReach("c05.pv.written")
	}
	vxReach("c05.pv.end")
}

// C05 (best-move clause, whole iteration loop): the real iterativeDeepening with rootSearch replaced by
// the contract VH_C05_root_iteration_best_move_is_legal establishes for it (an iteration of depth 1,
// or one that is not interrupted, leaves a legal root move at pv[0][0]; an interrupted deeper iteration
// leaves pv[0] as it was). Stop may arrive during any iteration and then stays; the hash table answers
// arbitrarily. Whatever happens, the reported best move is one of the legal root moves and no buffer is
// indexed out of range.
func VH_C05_iterative_deepening_reports_a_legal_root_move() {
	vxOpt("replay", "abstract")
	vxUnwind(6)
	vxSymSearchSwitches(false)
	n := vxSymNode()
	vxAssume(n.k >= 1)
	s, p := vxNodeSearch(n, 0, vxAnyChildValue)
	s.tt = &transpositiontable.TtTable{}
	vxStub(vxSrchPfx+"sendInfoStringToUci", func(ss *Search, m string) {})
	vxStub(vxSrchPfx+"sendIterationEndInfoToUci", func(ss *Search) {})
	vxStub(vxSrchPfx+"checkDrawRepAnd50", func(ss *Search, pp *position.Position, i int) bool { return false })
	vxStub("(*github.com/frankkopp/FrankyGo/internal/moveslice.MoveSlice).Sort", func(ms *moveslice.MoveSlice) {})
	// the hash table answers every kind of look-up arbitrarily
	vxStub("(*github.com/frankkopp/FrankyGo/internal/transpositiontable.TtTable).GetEntry", func(tt *transpositiontable.TtTable, key position.Key) *transpositiontable.TtEntry {
		if vxFreshBool("tt.get.hit") {
			e := &transpositiontable.TtEntry{}
			e.Move = Move(uint16(vxFreshI16("tt.get.move"))) | Move(uint16(vxFreshI16("tt.get.value")))<<16
			e.Depth = int8(vxFreshI16("tt.get.depth"))
			e.Type = ValueType(vxFreshI16("tt.get.type") & 3)
			return e
		}
		return nil
	})
	stopped := false
	vxStub(vxSrchPfx+"stopConditions", func(ss *Search) bool { return stopped })
	vxStub(vxSrchPfx+"rootSearch", func(ss *Search, pp *position.Position, depth int, alpha Value, beta Value) Value {
		if vxFreshBool("stop-arrives-during-this-iteration") {
			stopped = true
		}
		if stopped && depth > 1 {
			return 0
		}
		j := int(vxFreshI16("best-root-move-of-this-iteration"))
		vxAssume(j >= 0 && j < n.k)
		ss.pv[0].Clear()
		ss.pv[0].PushBack(n.moves[j])
		if vxFreshBool("pv-has-a-continuation") {
			ss.pv[0].PushBack(Move(vxFreshI16("pv.second")))
		}
		return 0
	})
	root := moveslice.NewMoveSlice(8)
	for i := 0; i < vxK; i++ {
		if i < n.k {
			root.PushBack(n.moves[i])
		}
	}
	vxStub("(*github.com/frankkopp/FrankyGo/internal/movegen.Movegen).GenerateLegalMoves", func(mg *movegen.Movegen, pp *position.Position, mode movegen.GenMode) *moveslice.MoveSlice {
		return root
	})
	s.searchLimits.Depth = vxInt("limit.depth")
	vxAssume(s.searchLimits.Depth >= 1 && s.searchLimits.Depth <= 4) // every further iteration repeats the same step
	res := s.iterativeDeepening(p)
	isRoot := false
	for i := 0; i < vxK; i++ {
		if i < n.k && res.BestMove == n.moves[i].MoveOf() {
			isRoot = true
		}
	}
	vxAssert(isRoot, "iterative-deepening.best-move-is-a-legal-root-move")
	vxReach("c05.iterdeep.end")
}

// the same step for a quiescence node
func VH_C05_qnode_pv_continuation_belongs_to_its_move() {
	vxOpt("replay", "abstract")
	vxUnwind(vxK + 3)
	vxSymSearchSwitches(true)
	Settings.Search.UseQuiescence = true
	n := vxSymNode()
	const ply = 2
	var s *Search
	s2, p := vxNodeSearch(n, ply, vxAnyChildValue)
	s = s2
	s.tt = &transpositiontable.TtTable{}
	vxUnstub(vxSrchPfx + "qsearch")
	vxStubNested(vxSrchPfx+"qsearch", func(ss *Search, pp *position.Position, cply int, alpha Value, beta Value, isPV bool) Value {
		s.pv[cply].Clear()
		if vxFreshBool("child.reports-a-line") {
			s.pv[cply].PushBack(Move(1000 + n.cur))
		}
		return vxAnyChildValue(pp, 0, cply, alpha, beta)
	})
	alpha, beta := Value(vxI16("alpha")), Value(vxI16("beta"))
	vxAssume(alpha >= ValueMin && alpha < beta && beta <= ValueMax)
	s.qsearch(p, ply, alpha, beta, true)
	pv := s.pv[ply]
	if pv.Len() > 0 {
		first := pv.At(0).MoveOf()
		found, at := false, 0
		for i := 0; i < vxK; i++ {
			if i < n.k && n.moves[i] == first {
				found, at = true, i
			}
		}
		vxAssert(found, "qnode-pv-starts-with-a-move-of-the-node")
		if found && pv.Len() > 1 {
			vxAssert(pv.Len() == 2 && pv.At(1) == Move(1000+at), "qnode-pv-continuation-is-the-line-of-the-move-it-follows")
			vxReach("c05.qpv.with-continuation")
		}
	}
	vxReach("c05.qpv.end")
}
