package search

import (
	"time"

	"golang.org/x/sync/semaphore"

	"github.com/frankkopp/FrankyGo/internal/moveslice"
	"github.com/frankkopp/FrankyGo/internal/position"
	. "github.com/frankkopp/FrankyGo/internal/types"
)

// C14 / C12 lifecycle, sequentialised thread-modular harnesses on the real StartSearch / run /
// startTimer code. Semaphores are their own counters; `go f()` runs f inline (T-start, T-run) or is
// examined on its own (T-timer). Data-race freedom is NOT claimed (see MANIFEST).

const (
	vxIterDeep   = "(*github.com/frankkopp/FrankyGo/internal/search.Search).iterativeDeepening"
	vxInitialize = "(*github.com/frankkopp/FrankyGo/internal/search.Search).initialize"
	vxStartTimer = "(*github.com/frankkopp/FrankyGo/internal/search.Search).startTimer"
	vxSendResult = "(*github.com/frankkopp/FrankyGo/internal/search.Search).sendResult"
	vxAgeEntries = "(*github.com/frankkopp/FrankyGo/internal/transpositiontable.TtTable).AgeEntries"
	vxNewMoveGen = "github.com/frankkopp/FrankyGo/internal/movegen.NewMoveGen"
	vxStringFen  = "(*github.com/frankkopp/FrankyGo/internal/position.Position).StringFen"
)

func vxLifecycleSearch() *Search {
	s := &Search{}
	s.initSemaphore = semaphore.NewWeighted(1)
	s.isRunning = semaphore.NewWeighted(1)
	return s
}

func vxLifecycleStubs(s *Search, results *int, sentWhileStopped *bool) {
	vxStub(vxIterDeep, func(ss *Search, p *position.Position) *Result {
		ss.stopFlag = vxBool("stop-arrived-during-search") // the environment may have requested stop meanwhile
		return &Result{BestMove: Move(vxU16("bestmove"))}
	})
	vxStub(vxInitialize, func(ss *Search) {})
	vxStub(vxStartTimer, func(ss *Search) {})
	vxStub(vxStringFen, func(p *position.Position) string { return "fen" })
	vxStub(vxSendResult, func(ss *Search, r *Result) {
		*results = *results + 1
		*sentWhileStopped = ss.stopFlag
	})
}

// T-start: StartSearch from a state in which a search may already be running (isRunning held by
// it). The start must never block the controller: every Acquire succeeds or its releaser runs.
func VH_C14_start_never_blocks() {
	vxOpt("go", "inline")
	vxOpt("replay", "abstract")
	vxOpt("deadlock-id", "StartSearch-blocks-controller-forever")
	s := vxLifecycleSearch()
	results, sentStopped := 0, false
	vxLifecycleStubs(s, &results, &sentStopped)
	running := vxBool("a-search-is-already-running")
	if running {
		s.isRunning.TryAcquire(1)
	}
	p := position.VxPosPhaseStm(0, White)
	sl := Limits{Depth: 1}
	pv0 := moveslice.NewMoveSlice(8)
	_ = pv0
	s.StartSearch(*p, sl)
	vxAssert(vxSemFree(s.initSemaphore), "StartSearch.returns-with-init-semaphore-released")
	if !running {
		vxAssert(results == 1, "started-search-delivers-exactly-one-result")
		vxAssert(vxSemFree(s.isRunning), "finished-search-releases-isRunning")
	} else {
		vxAssert(results == 0, "rejected-start-delivers-no-result")
		vxReach("start.while-running")
	}
	vxReach("start.end")
}

// T-run: run() with the stop flag under environment control while it waits (infinite / ponder):
// exactly one result, only after stop was observed, isRunning released on every exit.
func VH_C14_run_one_result() {
	vxOpt("go", "inline")
	vxOpt("replay", "abstract")
	vxUnwind(4)
	s := vxLifecycleSearch()
	results, sentStopped := 0, false
	vxLifecycleStubs(s, &results, &sentStopped)
	polls := 0
	vxStub("time.Sleep", func(d time.Duration) {
		// while the search goroutine sleeps the controller may deliver stop; fairness: it does so
		// within three polls
		polls++
		if polls >= 3 || vxBoolN("stop-during-poll", polls) {
			s.stopFlag = true
		}
	})
	p := position.VxPosPhaseStm(0, White)
	sl := &Limits{Infinite: vxBool("infinite"), Ponder: vxBool("ponder"), Depth: 1}
	s.searchLimits = sl
	s.initSemaphore.TryAcquire(1) // as StartSearch does before spawning run
	s.run(p, sl)
	vxAssert(results == 1, "run.exactly-one-result")
	vxAssert(vxSemFree(s.isRunning), "run.releases-isRunning")
	vxAssert(vxSemFree(s.initSemaphore), "run.releases-init-semaphore")
	if sl.Infinite || sl.Ponder {
		vxAssert(sentStopped, "infinite/ponder-result-only-after-stop")
	}
	vxReach("run.end")
}

// T-timer: the timer goroutine body. At every sleep the environment may end the search the timer
// was started for and start another one (new identity, stop flag cleared, new limits). The timer
// must set the stop flag only for the search it belongs to.
func VH_C14_timer_isolated() {
	vxOpt("go", "inline")
	vxOpt("replay", "abstract")
	vxUnwind(5)
	s := vxLifecycleSearch()
	s.timeLimit = time.Duration(vxI64("timeLimit"))
	vxAssume(s.timeLimit > 0 && int64(s.timeLimit) < int64(1)<<44)
	s.searchLimits = &Limits{TimeControl: true}
	searchID, startedFor := 1, 1
	polls := 0
	vxStub("time.Sleep", func(d time.Duration) {
		polls++
		if vxBoolN("search-ended-and-next-started", polls) {
			searchID++
			s.stopFlag = false
			nl := vxI64N("next.timeLimit", polls)
			vxAssume(nl >= 0 && nl < int64(1)<<44)
			s.timeLimit = time.Duration(nl)
			s.extraTime = 0
		}
	})
	reads := 0
	vxStub("time.Since", func(t time.Time) time.Duration {
		// an arbitrary clock that has passed every limit by the fourth poll (bounded exploration)
		reads++
		if polls >= 3 {
			return time.Duration(int64(1) << 50)
		}
		return time.Duration(vxI64N("elapsed", reads))
	})
	before := s.stopFlag
	s.startTimer()
	if s.stopFlag && !before {
		vxAssert(searchID == startedFor, "timer-stops-only-the-search-it-was-started-for")
		vxReach("timer.fired")
	}
	vxReach("timer.end")
}
