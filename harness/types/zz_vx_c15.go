package types

// C15 data obligation: piece values, game-phase values and piece-square tables are colour-symmetric
// (white piece on sq == black piece on the vertically mirrored square), for every game phase.
func VH_C15_tables_symmetric() {
	ok := true
	for pt := King; pt <= Queen; pt++ {
		w, b := MakePiece(White, pt), MakePiece(Black, pt)
		for sq := 0; sq < 64; sq++ {
			if PosMidValue(w, Square(sq)) != PosMidValue(b, Square(sq^56)) || PosEndValue(w, Square(sq)) != PosEndValue(b, Square(sq^56)) {
				ok = false
			}
			for gp := 0; gp <= GamePhaseMax; gp++ {
				if PosValue(w, Square(sq), gp) != PosValue(b, Square(sq^56), gp) {
					ok = false
				}
			}
		}
		if w.ValueOf() != b.ValueOf() {
			ok = false
		}
	}
	vxAssert(ok, "value-tables-colour-symmetric")
}

// ValueFromScore is odd in (mid, end): V(-m,-e,g) == -V(m,e,g), V(0,0,g) == 0, for every game phase
// (case parameter k: g = k/24) and |m|,|e| <= 32000. Licenses the summary used by the evaluator
// harness. Decomposed so that each solver query contains a single floating-point product:
//   (A) V(-m,0,g) == -V(m,0,g)   (B) V(0,-e,g) == -V(0,e,g)   (C) V(m,e,g) == V(m,0,g) + V(0,e,g)
// and -(a+b) == (-a)+(-b) in int16 arithmetic gives oddness of V.
func VN_C15_value_from_score_odd_T() int { return GamePhaseMax + 1 }
func VH_C15_value_from_score_odd_T(k int) {
	g := float64(k) / GamePhaseMax
	m, e := int(vxI16("mid")), int(vxI16("end"))
	vxAssume(m >= -32000 && m <= 32000 && e >= -32000 && e <= 32000)
	v := func(a, b int) Value {
		s := Score{MidGameValue: a, EndGameValue: b}
		return s.ValueFromScore(g)
	}
	vxAssert(v(-m, 0) == -v(m, 0), "ValueFromScore-odd-in-mid")
	vxAssert(v(0, -e) == -v(0, e), "ValueFromScore-odd-in-end")
	vxAssert(v(m, e) == v(m, 0)+v(0, e), "ValueFromScore-additive")
	vxAssert(v(-m, -e) == v(-m, 0)+v(0, -e), "ValueFromScore-additive-neg")
	vxAssert(v(0, 0) == 0, "ValueFromScore(0,0)==0")
}
