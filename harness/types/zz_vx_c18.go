package types

// C18: precomputed bitboard tables equal their geometric definitions.
// Reference geometry: file/rank integer arithmetic only, no engine tables.

func vxOn(f, r int) bool { return f >= 0 && f < 8 && r >= 0 && r < 8 }

func vxBit(f, r int) Bitboard {
	if !vxOn(f, r) {
		return 0
	}
	return Bitboard(1) << uint(r*8+f)
}

func vxAbs(a int) int {
	if a < 0 {
		return -a
	}
	return a
}

func vxMax(a, b int) int {
	if a > b {
		return a
	}
	return b
}

func vxSgn(a int) int {
	if a > 0 {
		return 1
	}
	if a < 0 {
		return -1
	}
	return 0
}

// vxSpecRay: squares attacked from sq along (df,dr) given the occupancy: up to and including the
// first occupied square.
func vxSpecRay(sq int, occ Bitboard, df, dr int) Bitboard {
	var a Bitboard
	f, r := (sq&7)+df, (sq>>3)+dr
	for i := 0; i < 7; i++ {
		if !vxOn(f, r) {
			break
		}
		b := vxBit(f, r)
		a |= b
		if occ&b != 0 {
			break
		}
		f += df
		r += dr
	}
	return a
}

func vxSpecRook(sq int, occ Bitboard) Bitboard {
	return vxSpecRay(sq, occ, 0, 1) | vxSpecRay(sq, occ, 1, 0) | vxSpecRay(sq, occ, 0, -1) | vxSpecRay(sq, occ, -1, 0)
}

func vxSpecBishop(sq int, occ Bitboard) Bitboard {
	return vxSpecRay(sq, occ, 1, 1) | vxSpecRay(sq, occ, 1, -1) | vxSpecRay(sq, occ, -1, -1) | vxSpecRay(sq, occ, -1, 1)
}

// VxGeoAttacks is the geometric sliding-attack function; other packages' harnesses use it as the
// summary of GetAttacksBb that C18 justifies.
func VxGeoAttacks(pt PieceType, sq Square, occ Bitboard) Bitboard {
	switch pt {
	case Bishop:
		return vxSpecBishop(int(sq), occ)
	case Rook:
		return vxSpecRook(int(sq), occ)
	case Queen:
		return vxSpecBishop(int(sq), occ) | vxSpecRook(int(sq), occ)
	}
	return pseudoAttacks[pt][sq]
}

// ---- (a) sliding attacks: every subset of the square's mask is enumerated concretely (carry-rippler),
// all bits outside the mask stay symbolic: together this is every 64-bit occupancy.

func VN_C18_rook() int { return 64 }

func VH_C18_rook(k int) {
	vxUnwind(10)
	sq := Square(k)
	mask := rookMagics[sq].Mask
	free := Bitboard(vxU64("free"))
	n := 0
	b := Bitboard(0)
	for {
		occ := b | (free &^ mask)
		vxAssert(GetAttacksBb(Rook, sq, occ) == vxSpecRook(k, occ), "rook-attacks==ray-walk")
		n++
		b = (b - mask) & mask
		if b == 0 {
			break
		}
	}
	vxAssert(n == 1<<uint(mask.PopCount()), "rook-subsets-enumerated")
	// the split is exhaustive only if the reference itself ignores everything outside the subsets:
	// any occupancy is (occ&mask) | (occ&^mask) — nothing to show. Sanity: the mask has <= 12 bits.
	vxAssert(mask.PopCount() <= 12, "rook-mask-size")
	vxReach("rook.end")
}

func VN_C18_bishop() int { return 64 }
func VH_C18_bishop(k int) {
	vxUnwind(10)
	sq := Square(k)
	mask := bishopMagics[sq].Mask
	free := Bitboard(vxU64("free"))
	n := 0
	b := Bitboard(0)
	for {
		occ := b | (free &^ mask)
		vxAssert(GetAttacksBb(Bishop, sq, occ) == vxSpecBishop(k, occ), "bishop-attacks==ray-walk")
		n++
		b = (b - mask) & mask
		if b == 0 {
			break
		}
	}
	vxAssert(n == 1<<uint(mask.PopCount()), "bishop-subsets-enumerated")
	vxReach("bishop.end")
}

// Queen = bishop lookup | rook lookup for every square and occupancy: shown with both attack tables
// replaced by uninterpreted arrays (the composition does not depend on their contents).
func VH_C18_queen_composition() {
	vxHavocBacking("rookTableU", rookMagics[0].Attacks)
	vxHavocBacking("bishopTableU", bishopMagics[0].Attacks)
	sq := Square(vxU8("sq"))
	vxAssume(sq < 64)
	occ := Bitboard(vxU64("occ"))
	q := GetAttacksBb(Queen, sq, occ)
	vxAssert(q == GetAttacksBb(Bishop, sq, occ)|GetAttacksBb(Rook, sq, occ), "queen==bishop|rook")
	vxReach("queen.end")
}

// ---- (b) non-sliding tables, symbolic square(s)

func vxSymSq(name string) (Square, int, int) {
	sq := Square(vxU8(name))
	vxAssume(sq < 64)
	return sq, int(sq & 7), int(sq >> 3)
}

func VH_C18_leapers() {
	sq, f, r := vxSymSq("sq")
	var kn, kg Bitboard
	kn = vxBit(f+1, r+2) | vxBit(f+2, r+1) | vxBit(f+2, r-1) | vxBit(f+1, r-2) |
		vxBit(f-1, r-2) | vxBit(f-2, r-1) | vxBit(f-2, r+1) | vxBit(f-1, r+2)
	kg = vxBit(f, r+1) | vxBit(f+1, r+1) | vxBit(f+1, r) | vxBit(f+1, r-1) |
		vxBit(f, r-1) | vxBit(f-1, r-1) | vxBit(f-1, r) | vxBit(f-1, r+1)
	vxAssert(GetPseudoAttacks(Knight, sq) == kn, "knight-attacks")
	vxAssert(GetPseudoAttacks(King, sq) == kg, "king-attacks")
	vxAssert(GetAttacksBb(Knight, sq, Bitboard(vxU64("occ"))) == kn, "GetAttacksBb(Knight)")
	vxAssert(GetAttacksBb(King, sq, Bitboard(vxU64("occ2"))) == kg, "GetAttacksBb(King)")
	vxAssert(GetPawnAttacks(White, sq) == vxBit(f-1, r+1)|vxBit(f+1, r+1), "white-pawn-attacks")
	vxAssert(GetPawnAttacks(Black, sq) == vxBit(f-1, r-1)|vxBit(f+1, r-1), "black-pawn-attacks")
	vxAssert(sq.Bb() == Bitboard(1)<<sq, "sqBb")
	vxReach("leapers.end")
}

func vxLine(f, r, df, dr int) Bitboard {
	var a Bitboard
	for i := 1; i < 8; i++ {
		a |= vxBit(f+i*df, r+i*dr)
	}
	return a
}

func VH_C18_rays_and_pseudo_sliders() {
	sq, f, r := vxSymSq("sq")
	n, e, s, w := vxLine(f, r, 0, 1), vxLine(f, r, 1, 0), vxLine(f, r, 0, -1), vxLine(f, r, -1, 0)
	ne, se, sw, nw := vxLine(f, r, 1, 1), vxLine(f, r, 1, -1), vxLine(f, r, -1, -1), vxLine(f, r, -1, 1)
	vxAssert(sq.Ray(N) == n, "ray-N")
	vxAssert(sq.Ray(E) == e, "ray-E")
	vxAssert(sq.Ray(S) == s, "ray-S")
	vxAssert(sq.Ray(W) == w, "ray-W")
	vxAssert(sq.Ray(NE) == ne, "ray-NE")
	vxAssert(sq.Ray(SE) == se, "ray-SE")
	vxAssert(sq.Ray(SW) == sw, "ray-SW")
	vxAssert(sq.Ray(NW) == nw, "ray-NW")
	vxAssert(GetPseudoAttacks(Rook, sq) == n|e|s|w, "pseudo-rook")
	vxAssert(GetPseudoAttacks(Bishop, sq) == ne|se|sw|nw, "pseudo-bishop")
	vxAssert(GetPseudoAttacks(Queen, sq) == n|e|s|w|ne|se|sw|nw, "pseudo-queen")
	vxReach("rays.end")
}

func VH_C18_masks() {
	sq, f, r := vxSymSq("sq")
	var fw, fe, rn, rs, w1, e1 Bitboard
	for j := 0; j < 8; j++ {
		col := Bitboard(0x0101010101010101) << uint(j)
		row := Bitboard(0xFF) << uint(8*j)
		if j < f {
			fw |= col
		}
		if j > f {
			fe |= col
		}
		if j > r {
			rn |= row
		}
		if j < r {
			rs |= row
		}
		if j == f-1 {
			w1 |= col
		}
		if j == f+1 {
			e1 |= col
		}
	}
	vxAssert(sq.FilesWestMask() == fw, "filesWestMask")
	vxAssert(sq.FilesEastMask() == fe, "filesEastMask")
	vxAssert(sq.RanksNorthMask() == rn, "ranksNorthMask")
	vxAssert(sq.RanksSouthMask() == rs, "ranksSouthMask")
	vxAssert(sq.FileWestMask() == w1, "fileWestMask")
	vxAssert(sq.FileEastMask() == e1, "fileEastMask")
	vxAssert(sq.NeighbourFilesMask() == w1|e1, "neighbourFilesMask")
	vxAssert(sq.PassedPawnMask(White) == (w1|e1|(Bitboard(0x0101010101010101)<<uint(f)))&rn, "passedPawnMask-white")
	vxAssert(sq.PassedPawnMask(Black) == (w1|e1|(Bitboard(0x0101010101010101)<<uint(f)))&rs, "passedPawnMask-black")
	vxAssert(sq.FileOf().Bb() == Bitboard(0x0101010101010101)<<uint(f), "File.Bb")
	vxAssert(sq.RankOf().Bb() == Bitboard(0xFF)<<uint(8*r), "Rank.Bb")
	// centre distance: Chebyshev distance to the nearest of d4,e4,d5,e5
	cd := 99
	for _, c := range [4][2]int{{3, 3}, {4, 3}, {3, 4}, {4, 4}} {
		d := vxMax(vxAbs(f-c[0]), vxAbs(r-c[1]))
		if d < cd {
			cd = d
		}
	}
	vxAssert(sq.CenterDistance() == cd, "centerDistance")
	// castling rights by square
	cr := CastlingNone
	switch sq {
	case SqE1:
		cr = CastlingWhiteOO | CastlingWhiteOOO
	case SqA1:
		cr = CastlingWhiteOOO
	case SqH1:
		cr = CastlingWhiteOO
	case SqE8:
		cr = CastlingBlackOO | CastlingBlackOOO
	case SqA8:
		cr = CastlingBlackOOO
	case SqH8:
		cr = CastlingBlackOO
	}
	vxAssert(GetCastlingRights(sq) == cr, "castlingRights-by-square")
	// square colours: a1 is dark ("Black" squares have even file+rank)
	dark := (f+r)%2 == 0
	vxAssert(SquaresBb(Black).Has(sq) == dark, "squaresBb-black")
	vxAssert(SquaresBb(White).Has(sq) == !dark, "squaresBb-white")
	vxReach("masks.end")
}

func VH_C18_castle_masks() {
	vxAssert(KingSideCastleMask(White) == vxBit(5, 0)|vxBit(6, 0)|vxBit(7, 0), "kingSideCastleMask-white")
	vxAssert(KingSideCastleMask(Black) == vxBit(5, 7)|vxBit(6, 7)|vxBit(7, 7), "kingSideCastleMask-black")
	vxAssert(QueenSideCastMask(White) == vxBit(0, 0)|vxBit(1, 0)|vxBit(2, 0)|vxBit(3, 0), "queenSideCastleMask-white")
	vxAssert(QueenSideCastMask(Black) == vxBit(0, 7)|vxBit(1, 7)|vxBit(2, 7)|vxBit(3, 7), "queenSideCastleMask-black")
}

func VN_C18_pairs() int { return 64 }
func VH_C18_pairs(k int) {
	s1, f1, r1 := Square(k), k&7, k>>3
	s2, f2, r2 := vxSymSq("sq2")
	df, dr := f2-f1, r2-r1
	dist := vxMax(vxAbs(df), vxAbs(dr))
	vxAssert(SquareDistance(s1, s2) == dist, "squareDistance")
	vxAssert(FileDistance(s1.FileOf(), s2.FileOf()) == vxAbs(df), "fileDistance")
	vxAssert(RankDistance(s1.RankOf(), s2.RankOf()) == vxAbs(dr), "rankDistance")
	var between Bitboard
	if s1 != s2 && (df == 0 || dr == 0 || vxAbs(df) == vxAbs(dr)) {
		sf, sr := vxSgn(df), vxSgn(dr)
		for i := 1; i < 7; i++ {
			if i < dist {
				between |= vxBit(f1+i*sf, r1+i*sr)
			}
		}
	}
	vxAssert(Intermediate(s1, s2) == between, "intermediate")
	vxAssert(s1.Intermediate(s2) == between, "Square.Intermediate")
	vxReach("pairs.end")
}

func VH_C18_square_to() {
	sq, f, r := vxSymSq("sq")
	dirs := [8]Direction{North, East, South, West, Northeast, Southeast, Southwest, Northwest}
	dfs := [8]int{0, 1, 0, -1, 1, 1, -1, -1}
	drs := [8]int{1, 0, -1, 0, 1, -1, -1, 1}
	for i := 0; i < 8; i++ {
		want := SqNone
		if vxOn(f+dfs[i], r+drs[i]) {
			want = Square((r+drs[i])*8 + f + dfs[i])
		}
		vxAssert(sq.To(dirs[i]) == want, "Square.To")
	}
	vxAssert(SquareOf(File(f), Rank(r)) == sq, "SquareOf")
	vxReach("to.end")
}

// ---- (c) board shifts never wrap
func VH_C18_shift() {
	b := Bitboard(vxU64("b"))
	dirs := [8]Direction{North, East, South, West, Northeast, Southeast, Southwest, Northwest}
	dfs := [8]int{0, 1, 0, -1, 1, 1, -1, -1}
	drs := [8]int{1, 0, -1, 0, 1, -1, -1, 1}
	for i := 0; i < 8; i++ {
		var want Bitboard
		for s := 0; s < 64; s++ {
			if b&(Bitboard(1)<<uint(s)) != 0 {
				want |= vxBit((s&7)+dfs[i], (s>>3)+drs[i])
			}
		}
		vxAssert(ShiftBitboard(b, dirs[i]) == want, "ShiftBitboard")
	}
	vxReach("shift.end")
}

// ---- (d) bit scans; lemma PL licences the executor's bit-scan loop rewriting
func VH_C18_bitscan() {
	b := Bitboard(vxU64("b"))
	// definitions by linear scan
	lsb, msb, cnt := 64, 64, 0
	for i := 63; i >= 0; i-- {
		if b&(Bitboard(1)<<uint(i)) != 0 {
			lsb = i
			cnt++
		}
	}
	for i := 0; i < 64; i++ {
		if b&(Bitboard(1)<<uint(i)) != 0 {
			msb = i
		}
	}
	vxAssert(int(b.Lsb()) == lsb, "Lsb")
	vxAssert(int(b.Msb()) == msb, "Msb")
	vxAssert(b.PopCount() == cnt, "PopCount")
	c := b
	got := c.PopLsb()
	vxAssert(int(got) == lsb, "PopLsb-returns-lowest")
	if b != 0 {
		vxAssert(c == b&^(Bitboard(1)<<uint(lsb)), "PopLsb-clears-exactly-lowest")
	} else {
		vxAssert(c == 0, "PopLsb-empty")
	}
	vxAssert(PushSquare(b, Square(lsb&63)) == b|Bitboard(1)<<uint(lsb&63), "PushSquare")
	vxAssert(PopSquare(b, Square(lsb&63)) == b&^(Bitboard(1)<<uint(lsb&63)), "PopSquare")
	vxAssert(b.Has(Square(lsb&63)) == (b != 0), "Has")
	vxReach("bitscan.end")
}
