package types

// C17 (encoding half): the packed move encoding is lossless.

func vxSymMoveFields() (from, to Square, mt MoveType, pt PieceType) {
	from = Square(vxU8("from"))
	to = Square(vxU8("to"))
	mt = MoveType(vxU8("mt"))
	pt = PieceType(vxU8("pt"))
	vxAssume(from < 64 && to < 64 && mt < 4)
	vxAssume(pt >= Knight && pt <= Queen)
	return
}

// all 2^16 field combinations x all int16 sort values
func VH_C17_encoding() {
	from, to, mt, pt := vxSymMoveFields()
	v := Value(vxI16("value"))
	m := CreateMove(from, to, mt, pt)
	vxAssert(m.From() == from, "CreateMove.From")
	vxAssert(m.To() == to, "CreateMove.To")
	vxAssert(m.MoveType() == mt, "CreateMove.MoveType")
	vxAssert(m.PromotionType() == pt, "CreateMove.PromotionType")
	vxAssert(m.ValueOf() == ValueNA, "CreateMove.ValueOf==NA")
	vxAssert(m.MoveOf() == m, "CreateMove.MoveOf")
	mv := CreateMoveValue(from, to, mt, pt, v)
	vxAssert(mv.From() == from, "CreateMoveValue.From")
	vxAssert(mv.To() == to, "CreateMoveValue.To")
	vxAssert(mv.MoveType() == mt, "CreateMoveValue.MoveType")
	vxAssert(mv.PromotionType() == pt, "CreateMoveValue.PromotionType")
	vxAssert(mv.ValueOf() == v, "CreateMoveValue.ValueOf")
	vxAssert(mv.MoveOf() == m, "CreateMoveValue.MoveOf")
	// SetValue never alters the move part; documented no-op on MoveNone (a1a1 normal knight == 0)
	v2 := Value(vxI16("value2"))
	m2 := mv
	r := m2.SetValue(v2)
	vxAssert(r == m2, "SetValue.returns-receiver")
	vxAssert(m2.MoveOf() == m, "SetValue.MoveOf-unchanged")
	if mv != MoveNone {
		vxAssert(m2.ValueOf() == v2, "SetValue.ValueOf")
	} else {
		vxAssert(m2 == MoveNone, "SetValue.MoveNone-noop")
	}
	// distinct field tuples give distinct encodings (injectivity)
	fromB, toB := Square(vxU8("fromB")), Square(vxU8("toB"))
	mtB, ptB := MoveType(vxU8("mtB")), PieceType(vxU8("ptB"))
	vxAssume(fromB < 64 && toB < 64 && mtB < 4 && ptB >= Knight && ptB <= Queen)
	mB := CreateMove(fromB, toB, mtB, ptB)
	if mB == m {
		vxAssert(fromB == from && toB == to && mtB == mt && ptB == pt, "CreateMove.injective")
	}
	vxReach("C17_encoding.end")
}
