package types

// Translator validation scenarios for package types: concrete computations through real code; the
// encoder must fold them to the same numbers the native build prints.

func VT_types_magic_checksum() uint64 {
	var h uint64 = 1469598103934665603
	occs := [6]Bitboard{0, 0xFFFF00000000FFFF, 0x0000001818000000, 0x8100000000000081, 0x00FF00000000FF00, 0x55AA55AA55AA55AA}
	for sq := SqA1; sq <= SqH8; sq++ {
		for _, o := range occs {
			h = (h ^ uint64(GetAttacksBb(Rook, sq, o))) * 1099511628211
			h = (h ^ uint64(GetAttacksBb(Bishop, sq, o))) * 1099511628211
			h = (h ^ uint64(GetAttacksBb(Queen, sq, o))) * 1099511628211
		}
		h = (h ^ uint64(GetPseudoAttacks(Knight, sq))) * 1099511628211
		h = (h ^ uint64(sq.To(Northwest))) * 1099511628211
		h = (h ^ uint64(sq.CenterDistance())) * 1099511628211
	}
	return h
}

func VT_types_move_checksum() uint64 {
	var h uint64 = 7
	for f := SqA1; f <= SqH8; f += 5 {
		for t := SqA1; t <= SqH8; t += 7 {
			for mt := Normal; mt <= Castling; mt++ {
				m := CreateMoveValue(f, t, mt, Queen, Value(int(f)*int(t)-1500))
				h = h*31 + uint64(m)
				m.SetValue(Value(-int(t)))
				h = h*31 + uint64(m) + uint64(uint16(m.ValueOf()))
			}
		}
	}
	return h
}

func VT_types_bits_checksum() uint64 {
	var h uint64 = 3
	b := Bitboard(0x8000400020001001)
	for b != 0 {
		sq := b.PopLsb()
		h = h*131 + uint64(sq) + uint64(b.PopCount())<<8 + uint64(b.Msb())<<16
	}
	x := int16(-12345)
	h = h*131 + uint64(uint32(x)) + uint64(x>>3)&0xFFFF + uint64(uint8(x))
	y := int64(-7)
	h = h*131 + uint64(y/2) + uint64(y%3)*5 + uint64(uint64(y)>>60)
	var sh uint = 70
	h = h*131 + uint64(uint32(1)<<sh) + uint64(int32(-8)>>sh)
	return h
}
