package transpositiontable

import (
	myLogging "github.com/frankkopp/FrankyGo/internal/logging"
	"github.com/frankkopp/FrankyGo/internal/position"
	. "github.com/frankkopp/FrankyGo/internal/types"
)

// C11: one operation from an arbitrary table state satisfying the representation invariant.
//
// Table state: capacity N = 2^k (k symbolic, 0..32), contents an uninterpreted array.
// Observed key kstar is arbitrary; ghost "last" holds the arguments of the most recent Put(kstar,...).
// Invariant J(kstar): slot(kstar).Key == kstar  ==>  slot == last (up to Age).

type vxGhostPut struct {
	written    bool
	move       Move
	depth      int8
	typ        ValueType
	mateThreat bool
}

func vxSymTable(maxLog int) *TtTable {
	k := vxU8("log2N")
	vxAssume(int(k) <= maxLog)
	vxPrefer(k <= 20) // counterexamples with small tables can be rebuilt natively for the replay
	return vxSymTableK(k)
}

func vxSymTableK(k uint8) *TtTable {
	tt := &TtTable{log: myLogging.GetLog()}
	n := uint64(1) << k
	tt.maxNumberOfEntries = n
	tt.hashKeyMask = n - 1
	tt.sizeInByte = n * TtEntrySize
	tt.numberOfEntries = vxU64("numberOfEntries")
	vxFreshSlice("data", &tt.data, int(n))
	return tt
}

func vxSymGhost() vxGhostPut {
	return vxGhostPut{written: vxBool("g.written"), move: Move(vxU32("g.move")), depth: vxI8("g.depth"),
		typ: ValueType(vxI8("g.type")), mateThreat: vxBool("g.mt")}
}

func vxInv(tt *TtTable, kstar position.Key, g vxGhostPut) bool {
	e := tt.data[tt.hash(kstar)]
	if e.Key != kstar || kstar == 0 {
		return true
	}
	return g.written && e.Move == g.move && e.Depth == g.depth && e.Type == g.typ && e.MateThreat == g.mateThreat
}

func vxSameButAge(a, b TtEntry) bool {
	return a.Key == b.Key && a.Move == b.Move && a.Depth == b.Depth && a.Type == b.Type && a.MateThreat == b.MateThreat
}

// storedMove: what Put is documented to store: the move with the value packed in.
func vxPacked(m Move, v Value) Move {
	return m.MoveOf() | Move(uint16(v-ValueNA))<<16
}

func VH_C11_put() {
	tt := vxSymTable(32)
	kstar := position.Key(vxU64("kstar"))
	g := vxSymGhost()
	vxAssume(vxInv(tt, kstar, g))
	key := position.Key(vxU64("key"))
	move := Move(vxU32("move"))
	depth := vxI8("depth")
	value := Value(vxI16("value"))
	vt := ValueType(vxI8("vtype"))
	mt := vxBool("mateThreat")
	vxAssume(value >= ValueMin && value <= ValueMax) // "all values in the valid range"
	vxAssume(depth >= 0)
	j := vxU64("otherSlot")
	vxAssume(j < tt.maxNumberOfEntries)
	h := tt.hash(key)
	old := tt.data[h]
	oldJ := tt.data[j]
	oldCount := tt.numberOfEntries

	tt.Put(key, move, depth, value, vt, mt)

	if key == kstar {
		g = vxGhostPut{written: true, move: vxPacked(move, value), depth: depth, typ: vt, mateThreat: mt}
	}
	now := tt.data[h]
	want := TtEntry{Key: key, Move: vxPacked(move, value), Depth: depth, Age: 1, Type: vt, MateThreat: mt}
	stored := now == want
	// (1) frame: no other slot is touched
	if j != h {
		vxAssert(tt.data[j] == oldJ, "put.other-slots-unchanged")
	}
	// (2) the slot afterwards is either the new entry, intact, or the untouched resident
	vxAssert(stored || now == old, "put.slot-is-new-or-old")
	// (3) replacement policy
	if old.Key == 0 || old.Key == key {
		vxAssert(stored, "put.empty-or-same-key-stores")
	} else {
		deeper := depth > old.Depth || (depth == old.Depth && old.Age > 1)
		vxAssert(stored == deeper, "put.collision-replaces-iff-deeper-or-aged")
	}
	// (4) entry count follows the number of occupied slots
	occBefore, occAfter := uint64(0), uint64(0)
	if old.Key != 0 {
		occBefore = 1
	}
	if now.Key != 0 {
		occAfter = 1
	}
	vxAssert(tt.numberOfEntries-oldCount == occAfter-occBefore, "put.count-tracks-occupied-slots")
	// (5) invariant preserved for the observed key
	vxAssert(vxInv(tt, kstar, g), "put.invariant")
	vxReach("put.end")
	if old.Key != 0 && old.Key != key && key != 0 {
		vxReach("put.collision")
	}
}

func VH_C11_lookup() {
	tt := vxSymTable(32)
	kstar := position.Key(vxU64("kstar"))
	g := vxSymGhost()
	vxAssume(vxInv(tt, kstar, g))
	key := position.Key(vxU64("key"))
	vxAssume(key != 0) // key 0 is the engine's empty-slot marker (recorded limitation, see known findings)
	j := vxU64("otherSlot")
	vxAssume(j < tt.maxNumberOfEntries)
	h := tt.hash(key)
	old := tt.data[h]
	oldJ := tt.data[j]
	oldCount := tt.numberOfEntries
	probe := vxBool("useProbe")
	var e *TtEntry
	if probe {
		e = tt.Probe(key)
	} else {
		e = tt.GetEntry(key)
	}
	if e != nil {
		vxAssert(e == &tt.data[h], "lookup.returns-slot-of-key")
		vxAssert(e.Key == key, "lookup.never-other-key")
		if key == kstar {
			vxAssert(g.written && e.Move == g.move && e.Depth == g.depth && e.Type == g.typ && e.MateThreat == g.mateThreat,
				"lookup.returns-most-recent-put")
		}
		vxReach("lookup.hit")
	} else {
		vxAssert(old.Key != key, "lookup.miss-only-if-absent")
	}
	vxAssert(vxSameButAge(tt.data[h], old), "lookup.changes-only-age")
	if !probe {
		vxAssert(tt.data[h] == old, "getentry.pure")
	} else if e != nil {
		a := old.Age - 1
		if a < 0 {
			a = 0
		}
		vxAssert(tt.data[h].Age == a, "probe.age-decrement-floor-0")
	}
	if j != h {
		vxAssert(tt.data[j] == oldJ, "lookup.other-slots-unchanged")
	}
	vxAssert(tt.numberOfEntries == oldCount, "lookup.count-unchanged")
	vxAssert(vxInv(tt, kstar, g), "lookup.invariant")
	vxReach("lookup.end")
}

// value round trip through the packed move for every storable value and every move
func VH_C11_value_roundtrip() {
	tt := vxSymTable(32)
	key := position.Key(vxU64("key"))
	vxAssume(key != 0)
	move := Move(vxU16("move16"))
	value := Value(vxI16("value"))
	vxAssume(value >= ValueMin && value <= ValueMax)
	depth := vxI8("depth")
	vxAssume(depth >= 0)
	vt := ValueType(vxI8("vtype"))
	mt := vxBool("mateThreat")
	old := tt.data[tt.hash(key)]
	vxAssume(old.Key == 0 || old.Key == key) // store is accepted
	tt.Put(key, move, depth, value, vt, mt)
	e := tt.GetEntry(key)
	vxAssert(e != nil, "roundtrip.found")
	if e != nil {
		vxAssert(e.Move.MoveOf() == move, "roundtrip.move")
		vxAssert(e.Move.ValueOf() == value, "roundtrip.value")
		vxAssert(e.Depth == depth, "roundtrip.depth")
		vxAssert(e.Type == vt, "roundtrip.type")
		vxAssert(e.MateThreat == mt, "roundtrip.mateThreat")
	}
	vxReach("roundtrip.end")
}

func VH_C11_clear() {
	tt := vxSymTable(32)
	j := vxU64("slot")
	vxAssume(j < tt.maxNumberOfEntries)
	n := tt.maxNumberOfEntries
	tt.Clear()
	vxAssert(tt.maxNumberOfEntries == n && uint64(len(tt.data)) == n, "clear.capacity-kept")
	vxAssert(tt.data[j] == TtEntry{}, "clear.all-slots-empty")
	vxAssert(tt.Len() == 0, "clear.count-zero")
	vxAssert(tt.Hashfull() == 0, "clear.hashfull-zero")
	vxReach("clear.end")
}

func VH_C11_resize() {
	tt := vxSymTable(32)
	mb := vxInt("sizeInMByte")
	vxAssume(mb >= 0 && mb <= 1<<20)
	tt.Resize(mb)
	eff := uint64(mb)
	if eff > MaxSizeInMB {
		eff = MaxSizeInMB
	}
	n := tt.maxNumberOfEntries
	bytes := eff * 1024 * 1024
	if eff == 0 {
		vxAssert(n == 0, "resize.zero-size-zero-capacity")
	} else {
		vxAssert(n != 0 && n&(n-1) == 0, "resize.capacity-power-of-two")
		vxAssert(n*TtEntrySize <= bytes && 2*n*TtEntrySize > bytes, "resize.largest-power-of-two-fitting")
		vxAssert(tt.hashKeyMask == n-1, "resize.mask")
	}
	vxAssert(uint64(len(tt.data)) == n, "resize.data-length")
	j := vxU64("slot")
	if j < n {
		vxAssert(tt.data[j] == TtEntry{}, "resize.all-slots-empty")
	}
	vxAssert(tt.Len() == 0, "resize.count-zero")
	vxAssert(tt.Hashfull() == 0, "resize.hashfull-zero")
	vxReach("resize.end")
}

func VH_C11_hashfull() {
	tt := vxSymTable(32)
	vxAssume(tt.numberOfEntries <= tt.maxNumberOfEntries)
	vxAssert(uint64(tt.Hashfull()) == 1000*tt.numberOfEntries/tt.maxNumberOfEntries, "hashfull.permill")
	vxAssert(tt.Len() == tt.numberOfEntries, "len")
}

// lookups on a table of capacity 0 (Hash option minimum is 0)
func VH_C11_empty_table() {
	tt := &TtTable{log: myLogging.GetLog()}
	tt.Resize(0)
	key := position.Key(vxU64("key"))
	probe := vxBool("useProbe")
	var e *TtEntry
	if probe {
		e = tt.Probe(key)
	} else {
		e = tt.GetEntry(key)
	}
	vxAssert(e == nil, "empty-table.lookup-nil")
	tt.Put(key, Move(vxU16("move16")), 1, 0, 1, false)
	vxAssert(tt.Len() == 0, "empty-table.len")
}

// AgeEntries: every occupied slot ages by one, nothing else changes (capacity bounded for unrolling)
func VN_C11_age() int { return 8 } // capacities 2^0..2^7; larger tables (>160 slots) use the SMT-array representation, for which the encoder's counterexamples did not replay (encoder limitation, not claimed)
func VQ_C11_age() int { return 7 }
func VH_C11_age(k int) {
	vxOpt("go", "inline")
	tt := vxSymTableK(uint8(k))
	j := vxU64("slot")
	vxAssume(j < tt.maxNumberOfEntries)
	old := tt.data[j]
	oldCount := tt.numberOfEntries
	tt.AgeEntries()
	want := old
	if old.Key != 0 && oldCount > 0 {
		want.Age++
	}
	vxAssert(tt.data[j] == want, "age.each-occupied-slot-once")
	vxAssert(tt.numberOfEntries == oldCount, "age.count-unchanged")
	vxReach("age.end")
}
