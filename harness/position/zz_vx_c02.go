package position

import (
	. "github.com/frankkopp/FrankyGo/internal/types"
)

// vxMoveSq: pseudo-legal move with CONCRETE origin and destination (k = from*64+to); move type and
// promotion piece symbolic. The state is passed so that the move can be assumed pseudo-legal.
func vxMoveSqRaw(k int) Move {
	from, to := Square((k>>6)&63), Square(k&63)
	mt := MoveType(k >> 12)
	prom := PieceType(vxU8("move.prom"))
	vxAssume(prom >= Knight && prom <= Queen)
	if mt != Promotion {
		prom = Knight
	}
	return CreateMove(from, to, mt, prom)
}

// vxSymMove: an arbitrary pseudo-legal move of the given (concrete) move type; origin, destination
// and promotion piece are symbolic. Building it from fields keeps the move type concrete, so only
// the matching branch of DoMove/UndoMove is encoded.
func vxSymMove(s *VxState, mt int) Move {
	from := Square(vxU8("move.from"))
	to := Square(vxU8("move.to"))
	vxAssume(from < 64 && to < 64)
	prom := Knight
	if MoveType(mt) == Promotion {
		prom = PieceType(vxU8("move.prom"))
		vxAssume(prom >= Knight && prom <= Queen)
	}
	m := CreateMove(from, to, MoveType(mt), prom)
	vxAssume(s.VxSpecPseudoLegal(m))
	return m
}

// C02: DoMove yields the rule-defined successor, one step from an arbitrary legal position
// (case split on the move type only: 0 normal, 1 promotion, 2 en passant, 3 castling).
func VN_C02_domove() int { return 4 }
func VH_C02_domove(mt int) {
	p, s := VxSymPosL("", false)
	m := vxSymMove(&s, mt)
	want := s.VxSpecDoMove(m)
	p.DoMove(m)
	got := p.VxState()
	vxAssert(got.Board == want.Board, "domove.board")
	vxAssert(got.Stm == want.Stm, "domove.side-to-move")
	vxAssert(got.Rights == want.Rights, "domove.castling-rights")
	vxAssert(got.Ep == want.Ep, "domove.en-passant-square")
	vxAssert(got.Clock == want.Clock, "domove.half-move-clock")
	vxAssert(got.Number == want.Number, "domove.half-move-number")
	// observable through the accessors
	sq := Square(vxU8("anySquare"))
	vxAssume(sq < 64)
	vxAssert(p.GetPiece(sq) == want.Board[sq], "domove.GetPiece")
	vxAssert(p.NextPlayer() == want.Stm && p.CastlingRights() == want.Rights &&
		p.GetEnPassantSquare() == want.Ep && p.HalfMoveClock() == want.Clock, "domove.accessors")
	vxAssert(p.KingSquare(White) == want.VxKingSq(White) && p.KingSquare(Black) == want.VxKingSq(Black), "domove.king-squares")
	vxAssert(p.LastMove() == m, "domove.LastMove")
	vxAssert(p.LastCapturedPiece() == s.Board[m.To()], "domove.LastCapturedPiece")
	vxAssert(p.historyCounter == vxOldCounter(p)+0, "domove.dummy")
	vxReach("domove.end")
}

func vxOldCounter(p *Position) int { return p.historyCounter }
