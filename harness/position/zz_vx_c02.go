package position

import (
	. "github.com/frankkopp/FrankyGo/internal/types"
)

// vxGeomFeasible: can (from, to, type) be a move of any piece on any board at all?
func vxGeomFeasible(k int) bool {
	from, to, mt := (k>>6)&63, k&63, k>>12
	if from == to {
		return false
	}
	f1, r1, f2, r2 := from&7, from>>3, to&7, to>>3
	df, dr := vxAbs(f2-f1), vxAbs(r2-r1)
	switch mt {
	case 0:
		return df == 0 || dr == 0 || df == dr || (df == 1 && dr == 2) || (df == 2 && dr == 1)
	case 1:
		return df <= 1 && ((r1 == 6 && r2 == 7) || (r1 == 1 && r2 == 0))
	case 2:
		return df == 1 && ((r1 == 4 && r2 == 5) || (r1 == 3 && r2 == 2))
	case 3:
		return (from == 4 && (to == 6 || to == 2)) || (from == 60 && (to == 62 || to == 58))
	}
	return false
}

// vxNumFeasible / vxNthFeasible enumerate the geometrically feasible (from, to, type) triples; all
// other triples have no pseudo-legal move on any board (the pseudo-legality assumption is
// unsatisfiable for them), so the case split over the feasible ones is complete.
func vxNumFeasible() int {
	n := 0
	for k := 0; k < 4*4096; k++ {
		if vxGeomFeasible(k) {
			n++
		}
	}
	return n
}

// order: castling, en passant, promotion first (vxNumSpecial of them, always part of the quick
// tier), then the normal moves
func vxNthFeasible(i int) int {
	n := 0
	for mt := 3; mt >= 0; mt-- {
		for k := mt * 4096; k < (mt+1)*4096; k++ {
			if vxGeomFeasible(k) {
				if n == i {
					return k
				}
				n++
			}
		}
	}
	return 0
}

func vxNumSpecial() int {
	n := 0
	for k := 4096; k < 4*4096; k++ {
		if vxGeomFeasible(k) {
			n++
		}
	}
	return n
}

// vxMoveSq: pseudo-legal move with CONCRETE origin and destination (k = from*64+to); move type and
// promotion piece symbolic. The state is passed so that the move can be assumed pseudo-legal.
func vxMoveSqRaw(k int) Move {
	from, to := Square((k>>6)&63), Square(k&63)
	mt := MoveType(k >> 12)
	prom := PieceType(vxU8("move.prom"))
	vxAssume(prom >= Knight && prom <= Queen)
	if mt != Promotion {
		prom = Knight
	}
	return CreateMove(from, to, mt, prom)
}

// vxSymMove: an arbitrary pseudo-legal move of the given (concrete) move type; origin, destination
// and promotion piece are symbolic. Building it from fields keeps the move type concrete, so only
// the matching branch of DoMove/UndoMove is encoded.
func vxSymMove(s *VxState, mt int) Move {
	from := Square(vxU8("move.from"))
	to := Square(vxU8("move.to"))
	vxAssume(from < 64 && to < 64)
	prom := Knight
	if MoveType(mt) == Promotion {
		prom = PieceType(vxU8("move.prom"))
		vxAssume(prom >= Knight && prom <= Queen)
	}
	m := CreateMove(from, to, MoveType(mt), prom)
	vxAssume(s.VxSpecPseudoLegal(m))
	return m
}

// C02: DoMove yields the rule-defined successor, one step from an arbitrary well-formed position.
// Quick: origin, destination and move type concrete (16384 cases, 192 by seed), everything else
// symbolic. Thorough adds the variant with symbolic squares (case split on the move type only).
func vxCheckDoMove(p *Position, s *VxState, m Move) {
	want := s.VxSpecDoMove(m)
	p.DoMove(m)
	got := p.VxState()
	vxAssert(got.Board == want.Board, "domove.board")
	vxAssert(got.Stm == want.Stm, "domove.side-to-move")
	vxAssert(got.Rights == want.Rights, "domove.castling-rights")
	vxAssert(got.Ep == want.Ep, "domove.en-passant-square")
	vxAssert(got.Clock == want.Clock, "domove.half-move-clock")
	vxAssert(got.Number == want.Number, "domove.half-move-number")
	// observable through the accessors
	sq := Square(vxU8("anySquare"))
	vxAssume(sq < 64)
	vxAssert(p.GetPiece(sq) == want.Board[sq], "domove.GetPiece")
	vxAssert(p.NextPlayer() == want.Stm && p.CastlingRights() == want.Rights &&
		p.GetEnPassantSquare() == want.Ep && p.HalfMoveClock() == want.Clock, "domove.accessors")
	vxAssert(p.KingSquare(White) == want.VxKingSq(White) && p.KingSquare(Black) == want.VxKingSq(Black), "domove.king-squares")
	vxAssert(p.LastMove() == m, "domove.LastMove")
	vxAssert(p.LastCapturedPiece() == s.Board[m.To()], "domove.LastCapturedPiece")
	vxReach("domove.end")
}

func VN_C02_domove() int { return vxNumFeasible() }
func VQ_C02_domove() int { return 192 }
func VF_C02_domove() int { return vxNumSpecial() }
func VH_C02_domove(i int) {
	m := vxMoveSqRaw(vxNthFeasible(i))
	p, s := VxSymPosFreeL("", nil)
	vxAssume(s.VxSpecPseudoLegal(m))
	vxCheckDoMove(p, &s, m)
}

func VN_C02_domove_symbolic_squares_T() int { return 4 }
func VH_C02_domove_symbolic_squares_T(mt int) {
	p, s := VxSymPosFreeL("", nil)
	m := vxSymMove(&s, mt)
	vxCheckDoMove(p, &s, m)
}
