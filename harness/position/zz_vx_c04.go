package position

import (
	. "github.com/frankkopp/FrankyGo/internal/types"
)

// C04 preservation, delta form. Every additive total T (material, non-pawn material, piece-square
// sums, game phase) and the hash key are maintained as T(board) = sum / XOR over squares of a
// per-square value. A move changes the board on at most four squares, hence
//   T(board') = T(board) - sum_{i changed} v(board[i], i) + sum_{i changed} v(board'[i], i)
// (sum-difference lemma: arithmetic over the definition of T, independent of the engine).
// The harness lets the pre-state totals be ARBITRARY values t0 and asserts that DoMove changes each
// of them by exactly that delta, computed by scanning all 64 squares of the rule-defined successor
// board; together with the base case (FEN set-up, C16) this gives "incremental == recomputed" for
// every move sequence. Bitboards and king squares are compared with their full recomputation.
// Case split: origin, destination and move type concrete (4*4096 cases); everything else symbolic.

type vxTotals struct {
	material, nonPawn, psqMid, psqEnd [2]Value
	phase                             int
	key                               Key
}

func vxTotalsOf(p *Position) vxTotals {
	return vxTotals{material: p.material, nonPawn: p.materialNonPawn, psqMid: p.psqMidValue, psqEnd: p.psqEndValue,
		phase: p.gamePhase, key: p.zobristKey}
}

// vxSquareValue adds (sign=+1) or removes (sign=-1) the contribution of piece pc on square i.
func (t *vxTotals) apply(pc Piece, i int, sign int) {
	if pc == PieceNone {
		return
	}
	c, pt := vxColorOf(pc), vxTypeOf(pc)
	v := pt.ValueOf()
	np := Value(0)
	if pt > Pawn {
		np = v
	}
	if sign > 0 {
		t.material[c] += v
		t.nonPawn[c] += np
		t.psqMid[c] += PosMidValue(pc, Square(i))
		t.psqEnd[c] += PosEndValue(pc, Square(i))
		t.phase += pt.GamePhaseValue()
	} else {
		t.material[c] -= v
		t.nonPawn[c] -= np
		t.psqMid[c] -= PosMidValue(pc, Square(i))
		t.psqEnd[c] -= PosEndValue(pc, Square(i))
		t.phase -= pt.GamePhaseValue()
	}
	t.key ^= zobristBase.pieces[pc][i]
}

func vxStateKey(s *VxState) Key {
	k := zobristBase.castlingRights[s.Rights]
	if s.Ep != SqNone {
		k ^= zobristBase.enPassantFile[s.Ep&7]
	}
	if s.Stm == Black {
		k ^= zobristBase.nextPlayer
	}
	return k
}

func vxExpectedTotals(t0 vxTotals, s, n *VxState) vxTotals {
	t := t0
	for i := 0; i < 64; i++ {
		if s.Board[i] != n.Board[i] {
			t.apply(s.Board[i], i, -1)
			t.apply(n.Board[i], i, +1)
		}
	}
	t.key ^= vxStateKey(s) ^ vxStateKey(n)
	return t
}

func vxAssertTotals(p *Position, want vxTotals, pre string) {
	vxAssert(p.material == want.material && p.materialNonPawn == want.nonPawn, pre+".material-delta==rule-delta")
	vxAssert(p.psqMidValue == want.psqMid && p.psqEndValue == want.psqEnd, pre+".piece-square-delta==rule-delta")
	vxAssert(p.gamePhase == want.phase, pre+".game-phase-delta==rule-delta")
	vxAssert(p.zobristKey == want.key, pre+".hash-key-delta==rule-delta")
}

func vxAssertBitboards(p *Position, n *VxState, pre string) {
	pcs := [12]Piece{WhiteKing, WhitePawn, WhiteKnight, WhiteBishop, WhiteRook, WhiteQueen,
		BlackKing, BlackPawn, BlackKnight, BlackBishop, BlackRook, BlackQueen}
	ok := true
	var occ [2]Bitboard
	for _, q := range pcs {
		b := n.bbOf(q)
		occ[q>>3] |= b
		if p.piecesBb[q>>3][q&7] != b {
			ok = false
		}
	}
	vxAssert(ok && p.piecesBb[White][PtNone] == 0 && p.piecesBb[Black][PtNone] == 0, pre+".piece-bitboards==recomputed")
	vxAssert(p.occupiedBb == occ, pre+".occupancy==recomputed")
	vxAssert(p.kingSquare[White] == n.VxKingSq(White) && p.kingSquare[Black] == n.VxKingSq(Black), pre+".king-squares==recomputed")
}

func VN_C04_domove_preserves() int { return vxNumFeasible() }
func VQ_C04_domove_preserves() int { return 192 }
func VF_C04_domove_preserves() int { return vxNumSpecial() }
func VH_C04_domove_preserves(i int) {
	k := vxNthFeasible(i)
	m := vxMoveSqRaw(k)
	p, s := VxSymPosFreeL("", nil)
	vxAssume(s.VxSpecPseudoLegal(m))
	vxAssume(p.piecesBb[White][PtNone] == 0 && p.piecesBb[Black][PtNone] == 0)
	n := s.VxSpecDoMove(m)
	t0 := vxTotalsOf(p)
	p.DoMove(m)
	vxAssertTotals(p, vxExpectedTotals(t0, &s, &n), "domove")
	vxAssertBitboards(p, &n, "domove")
	vxAssert(p.GamePhase() == vxMin(GamePhaseMax, p.gamePhase), "GamePhase()==min(24,sum)")
	vxReach("domove_preserves.end")
}

func VH_C04_nullmove_preserves() {
	p, s := VxSymPosFreeL("", nil)
	n := s
	n.Ep = SqNone
	n.Stm = s.Stm.Flip()
	t0 := vxTotalsOf(p)
	p.DoNullMove()
	vxAssertTotals(p, vxExpectedTotals(t0, &s, &n), "nullmove")
	vxAssertBitboards(p, &n, "nullmove")
	vxReach("nullmove_preserves.end")
}

// data obligation on the real table: all Zobrist numbers are non-zero and pairwise distinct
// ("different keys when positions differ", up to 64-bit collisions of XOR combinations).
func VH_C04_zobrist_table_distinct() {
	var all [16*64 + 16 + 8 + 1]Key
	n := 0
	for pc := 0; pc < 16; pc++ {
		for sq := 0; sq < 64; sq++ {
			all[n] = zobristBase.pieces[pc][sq]
			n++
		}
	}
	for i := 0; i < 16; i++ {
		all[n] = zobristBase.castlingRights[i]
		n++
	}
	for i := 0; i < 8; i++ {
		all[n] = zobristBase.enPassantFile[i]
		n++
	}
	all[n] = zobristBase.nextPlayer
	n++
	ok := true
	for i := 0; i < n; i++ {
		if all[i] == 0 {
			ok = false
		}
		for j := i + 1; j < n; j++ {
			if all[i] == all[j] {
				ok = false
			}
		}
	}
	vxAssert(ok, "zobrist.entries-nonzero-and-distinct")
}
