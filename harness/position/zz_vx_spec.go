package position

// Reference model of the rules of chess on a mail-box board (file/rank arithmetic, ray walks of at
// most 7 steps, no bitboards, no engine tables) and the symbolic position SymPos64.

import (
	. "github.com/frankkopp/FrankyGo/internal/types"
)

// VxState is the rule-level state of a position.
type VxState struct {
	Board  [64]Piece
	Stm    Color
	Rights CastlingRights
	Ep     Square
	Clock  int
	Number int
}

func vxOn(f, r int) bool { return f >= 0 && f < 8 && r >= 0 && r < 8 }

func vxAbs(a int) int {
	if a < 0 {
		return -a
	}
	return a
}

func vxSgn(a int) int {
	if a > 0 {
		return 1
	}
	if a < 0 {
		return -1
	}
	return 0
}

func vxValidPiece(pc Piece) bool {
	return pc == PieceNone || (pc >= WhiteKing && pc <= WhiteQueen) || (pc >= BlackKing && pc <= BlackQueen)
}

func vxColorOf(pc Piece) Color  { return Color(pc >> 3) }
func vxTypeOf(pc Piece) PieceType { return PieceType(pc & 7) }
func vxMake(c Color, pt PieceType) Piece { return Piece(int8(c)<<3 | int8(pt)) }

// at returns the piece on (f,r) or PieceNone off the board.
func (s *VxState) at(f, r int) Piece {
	if !vxOn(f, r) {
		return PieceNone
	}
	return s.Board[r*8+f]
}

// rayHits: walking from (f,r) in direction (df,dr) the first piece met is pcA or pcB.
func (s *VxState) rayHits(f, r, df, dr int, pcA, pcB Piece) bool {
	for i := 1; i < 8; i++ {
		pc := s.at(f+i*df, r+i*dr)
		if pc != PieceNone {
			return pc == pcA || pc == pcB
		}
	}
	return false
}

// VxSpecAttacked: is square sq attacked by a piece of colour by (plain chess attack, no en passant).
func (s *VxState) VxSpecAttacked(sq Square, by Color) bool {
	f, r := int(sq&7), int(sq>>3)
	// pawns: a white pawn on (f±1, r-1) attacks (f,r)
	pr := r - 1
	if by == Black {
		pr = r + 1
	}
	pawn := vxMake(by, Pawn)
	if s.at(f-1, pr) == pawn || s.at(f+1, pr) == pawn {
		return true
	}
	kn := vxMake(by, Knight)
	if s.at(f+1, r+2) == kn || s.at(f+2, r+1) == kn || s.at(f+2, r-1) == kn || s.at(f+1, r-2) == kn ||
		s.at(f-1, r-2) == kn || s.at(f-2, r-1) == kn || s.at(f-2, r+1) == kn || s.at(f-1, r+2) == kn {
		return true
	}
	kg := vxMake(by, King)
	if s.at(f, r+1) == kg || s.at(f+1, r+1) == kg || s.at(f+1, r) == kg || s.at(f+1, r-1) == kg ||
		s.at(f, r-1) == kg || s.at(f-1, r-1) == kg || s.at(f-1, r) == kg || s.at(f-1, r+1) == kg {
		return true
	}
	rk, bs, qn := vxMake(by, Rook), vxMake(by, Bishop), vxMake(by, Queen)
	if s.rayHits(f, r, 0, 1, rk, qn) || s.rayHits(f, r, 1, 0, rk, qn) || s.rayHits(f, r, 0, -1, rk, qn) || s.rayHits(f, r, -1, 0, rk, qn) {
		return true
	}
	if s.rayHits(f, r, 1, 1, bs, qn) || s.rayHits(f, r, 1, -1, bs, qn) || s.rayHits(f, r, -1, -1, bs, qn) || s.rayHits(f, r, -1, 1, bs, qn) {
		return true
	}
	return false
}

// VxKingSq returns the square of the king of colour c (64 if none).
func (s *VxState) VxKingSq(c Color) Square {
	k := vxMake(c, King)
	res := SqNone
	for i := 63; i >= 0; i-- {
		if s.Board[i] == k {
			res = Square(i)
		}
	}
	return res
}

func (s *VxState) VxInCheck(c Color) bool {
	return s.VxSpecAttacked(s.VxKingSq(c), c.Flip())
}

func (s *VxState) pathEmpty(f1, r1, f2, r2 int) bool {
	df, dr := vxSgn(f2-f1), vxSgn(r2-r1)
	n := vxAbs(f2 - f1)
	if vxAbs(r2-r1) > n {
		n = vxAbs(r2 - r1)
	}
	for i := 1; i < 7; i++ {
		if i < n && s.at(f1+i*df, r1+i*dr) != PieceNone {
			return false
		}
	}
	return true
}

// VxSpecPseudoLegal: m (canonical encoding: no sort value, promotion bits 0 unless promotion) is a
// move the rules allow for the side to move, ignoring whether the own king is left in check and
// whether castling passes through check.
func (s *VxState) VxSpecPseudoLegal(m Move) bool {
	if m != m.MoveOf() {
		return false
	}
	from, to := m.From(), m.To()
	mt := m.MoveType()
	pc := s.Board[from]
	if pc == PieceNone || vxColorOf(pc) != s.Stm || from == to {
		return false
	}
	tgt := s.Board[to]
	if tgt != PieceNone && (vxColorOf(tgt) == s.Stm || vxTypeOf(tgt) == King) {
		return false
	}
	pt := vxTypeOf(pc)
	f1, r1, f2, r2 := int(from&7), int(from>>3), int(to&7), int(to>>3)
	df, dr := f2-f1, r2-r1
	fwd, startR, promR := 1, 1, 7
	if s.Stm == Black {
		fwd, startR, promR = -1, 6, 0
	}
	if mt != Promotion && m.PromotionType() != Knight {
		return false
	}
	switch mt {
	case Castling:
		if pt != King {
			return false
		}
		switch {
		case s.Stm == White && from == SqE1 && to == SqG1:
			return s.Rights.Has(CastlingWhiteOO) && s.Board[SqF1] == PieceNone && s.Board[SqG1] == PieceNone
		case s.Stm == White && from == SqE1 && to == SqC1:
			return s.Rights.Has(CastlingWhiteOOO) && s.Board[SqD1] == PieceNone && s.Board[SqC1] == PieceNone && s.Board[SqB1] == PieceNone
		case s.Stm == Black && from == SqE8 && to == SqG8:
			return s.Rights.Has(CastlingBlackOO) && s.Board[SqF8] == PieceNone && s.Board[SqG8] == PieceNone
		case s.Stm == Black && from == SqE8 && to == SqC8:
			return s.Rights.Has(CastlingBlackOOO) && s.Board[SqD8] == PieceNone && s.Board[SqC8] == PieceNone && s.Board[SqB8] == PieceNone
		}
		return false
	case EnPassant:
		return pt == Pawn && s.Ep != SqNone && to == s.Ep && dr == fwd && vxAbs(df) == 1 && tgt == PieceNone
	case Promotion:
		if pt != Pawn || r2 != promR || dr != fwd {
			return false
		}
		if df == 0 {
			return tgt == PieceNone
		}
		return vxAbs(df) == 1 && tgt != PieceNone
	}
	// Normal
	switch pt {
	case Pawn:
		if r2 == promR {
			return false
		}
		if df == 0 {
			if dr == fwd {
				return tgt == PieceNone
			}
			return dr == 2*fwd && r1 == startR && tgt == PieceNone && s.at(f1, r1+fwd) == PieceNone
		}
		return vxAbs(df) == 1 && dr == fwd && tgt != PieceNone
	case Knight:
		return (vxAbs(df) == 1 && vxAbs(dr) == 2) || (vxAbs(df) == 2 && vxAbs(dr) == 1)
	case King:
		return vxAbs(df) <= 1 && vxAbs(dr) <= 1
	case Bishop:
		return vxAbs(df) == vxAbs(dr) && s.pathEmpty(f1, r1, f2, r2)
	case Rook:
		return (df == 0 || dr == 0) && s.pathEmpty(f1, r1, f2, r2)
	case Queen:
		return (df == 0 || dr == 0 || vxAbs(df) == vxAbs(dr)) && s.pathEmpty(f1, r1, f2, r2)
	}
	return false
}

func vxRightsLostAt(sq Square) CastlingRights {
	switch sq {
	case SqE1:
		return CastlingWhiteOO | CastlingWhiteOOO
	case SqA1:
		return CastlingWhiteOOO
	case SqH1:
		return CastlingWhiteOO
	case SqE8:
		return CastlingBlackOO | CastlingBlackOOO
	case SqA8:
		return CastlingBlackOOO
	case SqH8:
		return CastlingBlackOO
	}
	return CastlingNone
}

// VxSpecDoMove returns the successor state the rules define for a pseudo-legal move.
func (s *VxState) VxSpecDoMove(m Move) VxState {
	n := *s
	from, to := m.From(), m.To()
	pc := s.Board[from]
	tgt := s.Board[to]
	pt := vxTypeOf(pc)
	fwd := 8
	if s.Stm == Black {
		fwd = -8
	}
	n.Board[from] = PieceNone
	n.Board[to] = pc
	n.Ep = SqNone
	n.Clock = s.Clock + 1
	if tgt != PieceNone || pt == Pawn {
		n.Clock = 0
	}
	switch m.MoveType() {
	case Promotion:
		n.Board[to] = vxMake(s.Stm, m.PromotionType())
	case EnPassant:
		if c := int(to) - fwd; c >= 0 && c < 64 { // total also for moves that are not pseudo-legal
			n.Board[c] = PieceNone
		}
	case Castling:
		switch to {
		case SqG1:
			n.Board[SqH1], n.Board[SqF1] = PieceNone, WhiteRook
		case SqC1:
			n.Board[SqA1], n.Board[SqD1] = PieceNone, WhiteRook
		case SqG8:
			n.Board[SqH8], n.Board[SqF8] = PieceNone, BlackRook
		case SqC8:
			n.Board[SqA8], n.Board[SqD8] = PieceNone, BlackRook
		}
	case Normal:
		if pt == Pawn && int(to)-int(from) == 2*fwd {
			n.Ep = Square(int(from) + fwd)
		}
	}
	n.Rights = s.Rights &^ (vxRightsLostAt(from) | vxRightsLostAt(to))
	n.Stm = s.Stm.Flip()
	n.Number = s.Number + 1
	return n
}

// VxSpecLegal: pseudo-legal, own king not left in check, castling not out of / through check.
func (s *VxState) VxSpecLegal(m Move) bool {
	if !s.VxSpecPseudoLegal(m) {
		return false
	}
	them := s.Stm.Flip()
	if m.MoveType() == Castling {
		mid := Square((int(m.From()) + int(m.To())) / 2)
		if s.VxSpecAttacked(m.From(), them) || s.VxSpecAttacked(mid, them) {
			return false
		}
	}
	n := s.VxSpecDoMove(m)
	return !n.VxInCheck(s.Stm)
}

// ---- recomputation of everything the engine maintains incrementally ----

type VxDerived struct {
	PiecesBb        [2][7]Bitboard
	OccupiedBb      [2]Bitboard
	KingSquare      [2]Square
	Material        [2]Value
	MaterialNonPawn [2]Value
	PsqMid          [2]Value
	PsqEnd          [2]Value
	PhaseSum        int
	Key             Key
}

func (s *VxState) VxRecompute() VxDerived {
	vxPieces := [12]Piece{WhiteKing, WhitePawn, WhiteKnight, WhiteBishop, WhiteRook, WhiteQueen,
		BlackKing, BlackPawn, BlackKnight, BlackBishop, BlackRook, BlackQueen}
	var d VxDerived
	d.KingSquare[0], d.KingSquare[1] = SqNone, SqNone
	for i := 0; i < 64; i++ {
		pc := s.Board[i]
		bit := Bitboard(1) << uint(i)
		for _, q := range vxPieces {
			if pc == q {
				c, pt := int(q>>3), int(q&7)
				d.PiecesBb[c][pt] |= bit
				d.OccupiedBb[c] |= bit
				d.Material[c] += PieceType(pt).ValueOf()
				if PieceType(pt) > Pawn {
					d.MaterialNonPawn[c] += PieceType(pt).ValueOf()
				}
				d.PsqMid[c] += PosMidValue(q, Square(i))
				d.PsqEnd[c] += PosEndValue(q, Square(i))
				d.PhaseSum += PieceType(pt).GamePhaseValue()
				d.Key ^= zobristBase.pieces[q][i]
				if PieceType(pt) == King {
					d.KingSquare[c] = Square(i)
				}
			}
		}
	}
	d.Key ^= zobristBase.castlingRights[s.Rights]
	if s.Ep != SqNone {
		d.Key ^= zobristBase.enPassantFile[s.Ep&7]
	}
	if s.Stm == Black {
		d.Key ^= zobristBase.nextPlayer
	}
	return d
}

func vxMin(a, b int) int {
	if a < b {
		return a
	}
	return b
}

// VxApply writes the rule-level state and everything derived from it into an engine position (the
// relation NewPositionFen is meant to establish).
func (p *Position) VxApply(s *VxState) {
	d := s.VxRecompute()
	p.board = s.Board
	p.nextPlayer = s.Stm
	p.castlingRights = s.Rights
	p.enPassantSquare = s.Ep
	p.halfMoveClock = s.Clock
	p.nextHalfMoveNumber = s.Number
	p.piecesBb = d.PiecesBb
	p.occupiedBb = d.OccupiedBb
	p.kingSquare = d.KingSquare
	p.material = d.Material
	p.materialNonPawn = d.MaterialNonPawn
	p.psqMidValue = d.PsqMid
	p.psqEndValue = d.PsqEnd
	p.gamePhase = d.PhaseSum // representation: the exact sum; GamePhase() reports min(24, sum)
	p.zobristKey = d.Key
}

// VxState extracts the rule-level state of an engine position.
func (p *Position) VxState() VxState {
	return VxState{Board: p.board, Stm: p.nextPlayer, Rights: p.castlingRights, Ep: p.enPassantSquare,
		Clock: p.halfMoveClock, Number: p.nextHalfMoveNumber}
}

// VxDerivedOK: every incrementally maintained field equals its recomputation from the board.
// (gamePhase is compared separately: see C04.)
func (p *Position) VxDerivedEq(d *VxDerived) (bbs, kings, material, psq, key bool) {
	bbs = p.piecesBb == d.PiecesBb && p.occupiedBb == d.OccupiedBb
	kings = p.kingSquare == d.KingSquare
	material = p.material == d.Material && p.materialNonPawn == d.MaterialNonPawn
	psq = p.psqMidValue == d.PsqMid && p.psqEndValue == d.PsqEnd
	key = p.zobristKey == d.Key
	return
}

// VxWellFormed: structural well-formedness of a position (each clause is listed in the evidence):
// valid piece codes, one king per colour, <=16 men and <=8 pawns per colour, no pawns on the back
// ranks, castling rights only with king and rook at home, en-passant target consistent.
func (s *VxState) VxWellFormed() bool {
	return s.vxWellFormed(false)
}

// bbOf: bitboard of all squares holding piece pc (mail-box scan).
func (s *VxState) bbOf(pc Piece) Bitboard {
	var b Bitboard
	for i := 0; i < 64; i++ {
		if s.Board[i] == pc {
			b |= Bitboard(1) << uint(i)
		}
	}
	return b
}

func (s *VxState) vxWellFormed(countMen bool) bool {
	for i := 0; i < 64; i++ {
		if !vxValidPiece(s.Board[i]) {
			return false
		}
	}
	wk, bk := s.bbOf(WhiteKing), s.bbOf(BlackKing)
	if wk == 0 || wk&(wk-1) != 0 || bk == 0 || bk&(bk-1) != 0 {
		return false
	}
	wp, bp := s.bbOf(WhitePawn), s.bbOf(BlackPawn)
	if (wp|bp)&0xFF000000000000FF != 0 {
		return false
	}
	if countMen {
		w := wk | wp | s.bbOf(WhiteKnight) | s.bbOf(WhiteBishop) | s.bbOf(WhiteRook) | s.bbOf(WhiteQueen)
		b := bk | bp | s.bbOf(BlackKnight) | s.bbOf(BlackBishop) | s.bbOf(BlackRook) | s.bbOf(BlackQueen)
		if w.PopCount() > 16 || b.PopCount() > 16 || wp.PopCount() > 8 || bp.PopCount() > 8 {
			return false
		}
	}
	if s.Stm > Black || s.Rights > CastlingAny {
		return false
	}
	// castling rights only with king and rook at home
	if s.Rights.Has(CastlingWhiteOO) && (s.Board[SqE1] != WhiteKing || s.Board[SqH1] != WhiteRook) {
		return false
	}
	if s.Rights.Has(CastlingWhiteOOO) && (s.Board[SqE1] != WhiteKing || s.Board[SqA1] != WhiteRook) {
		return false
	}
	if s.Rights.Has(CastlingBlackOO) && (s.Board[SqE8] != BlackKing || s.Board[SqH8] != BlackRook) {
		return false
	}
	if s.Rights.Has(CastlingBlackOOO) && (s.Board[SqE8] != BlackKing || s.Board[SqA8] != BlackRook) {
		return false
	}
	// en passant target: behind a pawn of the side that just moved, origin and target empty
	if s.Ep > SqNone {
		return false
	}
	if s.Ep != SqNone {
		r := int(s.Ep >> 3)
		if s.Stm == White { // black just pushed: target on rank 6, pawn on rank 5
			if r != 5 || s.Board[s.Ep] != PieceNone || s.Board[s.Ep-8] != BlackPawn || s.Board[s.Ep+8] != PieceNone {
				return false
			}
		} else {
			if r != 2 || s.Board[s.Ep] != PieceNone || s.Board[s.Ep+8] != WhitePawn || s.Board[s.Ep-8] != PieceNone {
				return false
			}
		}
	}
	if s.Clock < 0 || s.Clock > 1<<20 || s.Number < 1 || s.Number > 1<<20 {
		return false
	}
	return true
}

// VxLegalState: a legal chess position: well-formed and the side not to move is not in check.
func (s *VxState) VxLegalState() bool {
	return s.vxWellFormed(true) && !s.VxInCheck(s.Stm.Flip())
}

// VxSymState returns an arbitrary legal rule-level state (legal=false: only well-formed, the side
// not to move may be in check — a weaker assumption, used where legality is irrelevant).
func VxSymState(tag string, legal bool) VxState {
	var s VxState
	for i := 0; i < 64; i++ {
		s.Board[i] = Piece(vxI8(vxName(tag+"board", i)))
	}
	s.Stm = Color(vxU8(tag + "stm"))
	s.Rights = CastlingRights(vxU8(tag + "rights"))
	s.Ep = Square(vxU8(tag + "ep"))
	s.Clock = vxInt(tag + "clock")
	s.Number = vxInt(tag + "number")
	if legal {
		vxAssume(s.VxLegalState())
	} else {
		vxAssume(s.VxWellFormed())
	}
	return s
}

// VxSymPos returns an engine position in the state NewPositionFen/DoMove are meant to maintain for
// an arbitrary legal rule-level state, with an arbitrary undo stack.
func VxSymPos(tag string) (*Position, VxState) { return VxSymPosL(tag, true) }

func VxSymPosL(tag string, legal bool) (*Position, VxState) {
	p, s := VxSymPosFreeL(tag, nil)
	if legal {
		vxAssume(s.VxLegalState())
		// the cached in-check flag is either unset or correct
		inCheck := s.VxInCheck(s.Stm)
		vxAssume(p.hasCheckFlag == flagTBD || (p.hasCheckFlag == flagTrue && inCheck) || (p.hasCheckFlag == flagFalse && !inCheck))
	}
	return p, s
}

// VxZobristIndicator replaces the Zobrist table by the indicator of one arbitrary feature w: the key
// is XOR-linear in the table, so two key expressions that agree for every indicator agree for every
// table (DESIGN §2.8). No-op natively (the replay uses the real table).
func VxZobristIndicator() {
	if !vxSymbolic() {
		return
	}
	kind := vxU8("zob.kind")
	a := vxU8("zob.a")
	b := vxU8("zob.b")
	for pc := 0; pc < 16; pc++ {
		for sq := 0; sq < 64; sq++ {
			v := Key(0)
			if kind == 0 && int(a) == pc && int(b) == sq {
				v = 1
			}
			zobristBase.pieces[pc][sq] = v
		}
	}
	for cr := 0; cr < 16; cr++ {
		v := Key(0)
		if kind == 1 && int(a) == cr {
			v = 1
		}
		zobristBase.castlingRights[cr] = v
	}
	for f := 0; f < 8; f++ {
		v := Key(0)
		if kind == 2 && int(a) == f {
			v = 1
		}
		zobristBase.enPassantFile[f] = v
	}
	zobristBase.nextPlayer = 0
	if kind == 3 {
		zobristBase.nextPlayer = 1
	}
}

// VxSymPosFree: an engine position over an arbitrary well-formed rule-level state whose
// incrementally maintained fields (bitboards, king squares, material, piece-square sums, game
// phase, hash key) are arbitrary values — used where the claim is about how operations CHANGE those
// fields (undo restores them; do-move changes them by the rule-defined delta), which is stronger
// than assuming they start out consistent.
func VxSymPosFree(tag string) (*Position, VxState) { return VxSymPosFreeL(tag, nil) }

// VxSymPosFreeL: like VxSymPosFree; with localTo != nil (a function giving the successor state) the
// bitboards are only constrained where the board is about to change.
func VxSymPosFreeL(tag string, localTo func(s *VxState) VxState) (*Position, VxState) {
	s := VxSymState(tag, false)
	p := &Position{}
	p.board = s.Board
	p.nextPlayer = s.Stm
	p.castlingRights = s.Rights
	p.enPassantSquare = s.Ep
	p.halfMoveClock = s.Clock
	p.nextHalfMoveNumber = s.Number
	if localTo != nil {
		n := localTo(&s)
		p.vxFreeBitboards(tag, &s, &n)
	} else {
		p.vxFreeBitboards(tag, &s, nil)
	}
	// additive totals and the hash key: arbitrary
	for c := 0; c < 2; c++ {
		p.material[c] = Value(vxI16(vxName(tag+"material", c)))
		p.materialNonPawn[c] = Value(vxI16(vxName(tag+"materialNonPawn", c)))
		p.psqMidValue[c] = Value(vxI16(vxName(tag+"psqMid", c)))
		p.psqEndValue[c] = Value(vxI16(vxName(tag+"psqEnd", c)))
	}
	p.gamePhase = vxInt(tag + "gamePhase")
	vxAssume(p.gamePhase >= 0 && p.gamePhase <= GamePhaseMax)
	p.zobristKey = Key(vxU64(tag + "zobristKey"))
	p.historyCounter = vxInt(tag + "historyCounter")
	vxAssume(p.historyCounter >= 0 && p.historyCounter <= maxHistory-2)
	vxHavocBig(tag+"history", &p.history)
	p.hasCheckFlag = vxInt(tag + "hasCheckFlag")
	vxAssume(p.hasCheckFlag == flagTBD || p.hasCheckFlag == flagTrue || p.hasCheckFlag == flagFalse)
	return p, s
}

// vxFreeBitboards gives the position arbitrary bitboards. With local == nil they are constrained
// pointwise to the whole board (bit i of piecesBb[c][pt] set iff board[i] is that piece); with a
// successor state they are constrained only on the squares where the board changes (a weaker
// assumption: everything else about the bitboards is arbitrary).
func (p *Position) vxFreeBitboards(tag string, s *VxState, local *VxState) {
	pcs := [12]Piece{WhiteKing, WhitePawn, WhiteKnight, WhiteBishop, WhiteRook, WhiteQueen,
		BlackKing, BlackPawn, BlackKnight, BlackBishop, BlackRook, BlackQueen}
	for _, q := range pcs {
		b := Bitboard(vxU64(vxName(tag+"piecesBb", int(q))))
		for i := 0; i < 64; i++ {
			if local == nil || local.Board[i] != s.Board[i] {
				vxAssume((b&(Bitboard(1)<<uint(i)) != 0) == (s.Board[i] == q))
			}
		}
		p.piecesBb[q>>3][q&7] = b
	}
	for c := 0; c < 2; c++ {
		if local == nil {
			p.occupiedBb[c] = p.piecesBb[c][King] | p.piecesBb[c][Pawn] | p.piecesBb[c][Knight] |
				p.piecesBb[c][Bishop] | p.piecesBb[c][Rook] | p.piecesBb[c][Queen]
		} else {
			o := Bitboard(vxU64(vxName(tag+"occupiedBb", c)))
			for i := 0; i < 64; i++ {
				if local.Board[i] != s.Board[i] {
					vxAssume((o&(Bitboard(1)<<uint(i)) != 0) == (s.Board[i] != PieceNone && vxColorOf(s.Board[i]) == Color(c)))
				}
			}
			p.occupiedBb[c] = o
		}
		k := Square(vxU8(vxName(tag+"kingSquare", c)))
		vxAssume(k < 64 && s.Board[k] == vxMake(Color(c), King))
		p.kingSquare[c] = k
	}
}

// VxSpecAttackers: bitboard of the squares holding a piece of colour by that attacks sq.
func (s *VxState) VxSpecAttackers(sq Square, by Color) Bitboard {
	f, r := int(sq&7), int(sq>>3)
	var res Bitboard
	mark := func(ff, rr int, pc Piece) {
		if vxOn(ff, rr) && s.Board[rr*8+ff] == pc {
			res |= Bitboard(1) << uint(rr*8+ff)
		}
	}
	pr := r - 1
	if by == Black {
		pr = r + 1
	}
	mark(f-1, pr, vxMake(by, Pawn))
	mark(f+1, pr, vxMake(by, Pawn))
	kn, kg := vxMake(by, Knight), vxMake(by, King)
	dn := [8][2]int{{1, 2}, {2, 1}, {2, -1}, {1, -2}, {-1, -2}, {-2, -1}, {-2, 1}, {-1, 2}}
	dk := [8][2]int{{0, 1}, {1, 1}, {1, 0}, {1, -1}, {0, -1}, {-1, -1}, {-1, 0}, {-1, 1}}
	for i := 0; i < 8; i++ {
		mark(f+dn[i][0], r+dn[i][1], kn)
		mark(f+dk[i][0], r+dk[i][1], kg)
	}
	rk, bs, qn := vxMake(by, Rook), vxMake(by, Bishop), vxMake(by, Queen)
	for d := 0; d < 8; d++ {
		df, dr := dk[d][0], dk[d][1]
		straight := df == 0 || dr == 0
		for i := 1; i < 8; i++ {
			ff, rr := f+i*df, r+i*dr
			if !vxOn(ff, rr) {
				break
			}
			pc := s.Board[rr*8+ff]
			if pc != PieceNone {
				if pc == qn || (straight && pc == rk) || (!straight && pc == bs) {
					res |= Bitboard(1) << uint(rr*8+ff)
				}
				break
			}
		}
	}
	return res
}

// VxEpMarked: the engine's second en-passant convention (AttacksTo): on the en-passant target
// square the pawn that can be captured is marked as well when a pawn of colour by stands next to it.
func (s *VxState) VxEpMarked(sq Square, by Color) Bitboard {
	if s.Ep == SqNone || s.Ep != sq {
		return 0
	}
	v := int(s.Ep) - 8
	if by == Black {
		v = int(s.Ep) + 8
	}
	if v < 0 || v > 63 {
		return 0
	}
	f, r := v&7, v>>3
	att := vxMake(by, Pawn)
	if s.at(f-1, r) == att || s.at(f+1, r) == att {
		return Bitboard(1) << uint(v)
	}
	return 0
}

// VxPosPhaseStm: a position of which only side to move and game phase matter (time control).
func VxPosPhaseStm(phase int, stm Color) *Position {
	p := &Position{}
	p.gamePhase = phase
	p.nextPlayer = stm
	return p
}

// ---- evaluator support (C15) ----

func vxBswap(b Bitboard) Bitboard {
	b = (b&0x00000000FFFFFFFF)<<32 | (b&0xFFFFFFFF00000000)>>32
	b = (b&0x0000FFFF0000FFFF)<<16 | (b&0xFFFF0000FFFF0000)>>16
	b = (b&0x00FF00FF00FF00FF)<<8 | (b&0xFF00FF00FF00FF00)>>8
	return b
}

func vxFlipPiece(pc Piece) Piece {
	if pc == PieceNone {
		return pc
	}
	return pc ^ 8
}

// VxSymPosEval: a position as the evaluator sees it: symbolic well-formed board, bitboards and king
// squares consistent with it, additive totals arbitrary within the range positions with <= 16 men
// per side can reach (so that no int16 total overflows), no history.
func VxSymPosEval(tag string) *Position {
	p, _ := VxSymPosFreeL(tag, nil)
	for c := 0; c < 2; c++ {
		vxAssume(p.material[c] >= 0 && p.material[c] <= 15000 && p.materialNonPawn[c] >= 0 && p.materialNonPawn[c] <= p.material[c])
		vxAssume(p.psqMidValue[c] >= -3000 && p.psqMidValue[c] <= 3000 && p.psqEndValue[c] >= -3000 && p.psqEndValue[c] <= 3000)
	}
	return p
}

// VxMirror: the colour-mirrored position (board flipped vertically, colours, castling rights and
// side to move swapped). The additive totals swap sides: the per-piece value tables are
// colour-symmetric (data obligation VH_C15_tables_symmetric in package types).
func (p *Position) VxMirror() *Position {
	m := &Position{}
	for i := 0; i < 64; i++ {
		m.board[i] = vxFlipPiece(p.board[i^56])
	}
	for c := 0; c < 2; c++ {
		o := 1 - c
		for pt := 0; pt < 7; pt++ {
			m.piecesBb[c][pt] = vxBswap(p.piecesBb[o][pt])
		}
		m.occupiedBb[c] = vxBswap(p.occupiedBb[o])
		m.kingSquare[c] = p.kingSquare[o] ^ 56
		m.material[c] = p.material[o]
		m.materialNonPawn[c] = p.materialNonPawn[o]
		m.psqMidValue[c] = p.psqMidValue[o]
		m.psqEndValue[c] = p.psqEndValue[o]
	}
	m.nextPlayer = p.nextPlayer.Flip()
	m.castlingRights = (p.castlingRights&3)<<2 | (p.castlingRights>>2)&3
	m.enPassantSquare = p.enPassantSquare
	if p.enPassantSquare != SqNone {
		m.enPassantSquare = p.enPassantSquare ^ 56
	}
	m.halfMoveClock = p.halfMoveClock
	m.nextHalfMoveNumber = p.nextHalfMoveNumber
	m.gamePhase = p.gamePhase
	m.zobristKey = p.zobristKey ^ 0x5555
	m.hasCheckFlag = p.hasCheckFlag
	return m
}

// VxSameFields: every field of two positions agrees (history excluded; used for "does not modify").
func (p *Position) VxSameFields(q *Position) bool {
	return p.board == q.board && p.piecesBb == q.piecesBb && p.occupiedBb == q.occupiedBb && p.kingSquare == q.kingSquare &&
		p.material == q.material && p.materialNonPawn == q.materialNonPawn && p.psqMidValue == q.psqMidValue &&
		p.psqEndValue == q.psqEndValue && p.gamePhase == q.gamePhase && p.zobristKey == q.zobristKey &&
		p.nextPlayer == q.nextPlayer && p.castlingRights == q.castlingRights && p.enPassantSquare == q.enPassantSquare &&
		p.halfMoveClock == q.halfMoveClock && p.nextHalfMoveNumber == q.nextHalfMoveNumber &&
		p.historyCounter == q.historyCounter && p.hasCheckFlag == q.hasCheckFlag
}
