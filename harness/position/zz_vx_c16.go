package position

import (
	. "github.com/frankkopp/FrankyGo/internal/types"
)

// C16 (FEN half) and the base case of C04: position set-up from FEN text.
//
// setupBoard is executed on symbolic byte strings. The regular expressions it uses are the real
// patterns (taken from the regexp.MustCompile calls in position.go) simulated as NFAs over the
// symbolic bytes; strings.Split / TrimSpace are modelled for strings whose separators sit at
// concrete positions (the harness places them), strconv.Atoi by a decimal model.
//
//  VH_C16_fen_placement_any_bytes(k): the whole FEN is k arbitrary ASCII bytes without blanks, i.e.
//      one field, the piece placement: any rank length, digits past the board edge, too many ranks,
//      junk. Claim: no run-time panic; and if the text is accepted the piece bitboards and the
//      occupancy are those of the board array (no piece dropped on an occupied square, none lost).
//  VH_C16_fen_fields(i): a concrete, valid placement followed by 0..5 further fields of symbolic
//      bytes (case i fixes how many fields and how long each is). Claim: no panic; if accepted the
//      position is well formed: side, rights, en-passant square and counters in range, and every
//      derived field - including the hash key - equals its recomputation from the rule-level state
//      (this is the base case of C04's induction: FEN set-up establishes "incremental == recomputed").
//  VH_C04_putpiece_step: one putPiece on an empty square from an arbitrary position adds exactly the
//      piece's contribution to every total, bitboard and the key (lets the concrete placement of
//      VH_C16_fen_fields stand for every placement).

const vxC16MaxLen = 28

func VN_C16_fen_placement_any_bytes() int { return vxC16MaxLen + 1 }
func VQ_C16_fen_placement_any_bytes() int { return 19 }
func VH_C16_fen_placement_any_bytes(k int) {
	var buf [vxC16MaxLen]byte
	for i := 0; i < k; i++ {
		buf[i] = vxU8(vxName("byte", i))
	}
	fen := string(buf[:k])
	p := &Position{}
	// putPiece is replaced by its precondition (the square is on the board and empty, the piece code is
	// valid) plus the board write; VH_C04_putpiece_step shows that under this precondition the real
	// putPiece adds exactly the piece's contribution to every derived field.
	vxStub("(*github.com/frankkopp/FrankyGo/internal/position.Position).putPiece", func(pp *Position, piece Piece, sq Square) {
		vxAssert(vxValidPiece(piece) && piece != PieceNone, "fen.placement-puts-only-valid-pieces")
		vxAssert(sq < 64, "fen.placement-puts-only-on-board-squares")
		if sq < 64 {
			vxAssert(pp.board[sq] == PieceNone, "fen.placement-puts-only-on-empty-squares")
			pp.board[sq] = piece
		}
	})
	err := p.setupBoard(fen)
	vxReach("c16.placement.returned")
	if err != nil {
		vxReach("c16.placement.rejected")
		return
	}
	vxReach("c16.placement.accepted")
}

// field lengths per case: stm, castling, ep, clock, number; nf = number of fields after the placement
type vxFenCase struct {
	nf   int
	lens [5]int
}

func vxFenCases() []vxFenCase {
	var cs []vxFenCase
	for nf := 0; nf <= 4; nf++ { // prefixes with usual lengths
		cs = append(cs, vxFenCase{nf, [5]int{1, 4, 2, 1, 1}})
	}
	for cl := 0; cl <= 5; cl++ {
		for _, el := range [2]int{1, 2} {
			for _, kl := range [2]int{1, 3} {
				for _, nl := range [2]int{1, 3} {
					cs = append(cs, vxFenCase{5, [5]int{1, cl, el, kl, nl}})
				}
			}
		}
	}
	// unusual lengths of one field (empty fields arise from double blanks)
	cs = append(cs,
		vxFenCase{5, [5]int{0, 4, 2, 1, 1}}, vxFenCase{5, [5]int{2, 4, 2, 1, 1}},
		vxFenCase{5, [5]int{1, 4, 0, 1, 1}}, vxFenCase{5, [5]int{1, 4, 3, 1, 1}},
		vxFenCase{5, [5]int{1, 4, 2, 0, 1}}, vxFenCase{5, [5]int{1, 4, 2, 4, 1}},
		vxFenCase{5, [5]int{1, 4, 2, 1, 0}}, vxFenCase{5, [5]int{1, 4, 2, 1, 4}})
	return cs
}

// vxFenFieldsSetup runs setupBoard on a concrete placement followed by the symbolic fields of case i.
func vxFenFieldsSetup(i int) (*Position, error) {
	cse := vxFenCases()[i]
	// a concrete legal placement with every piece kind, castling and en-passant candidates on both sides
	fen := "r3k2r/1pp1qpb1/2n2np1/p2pP3/3P2Pp/2N2N2/PPP1QPB1/R3K2R"
	names := [5]string{"stm", "castling", "ep", "clock", "number"}
	for f := 0; f < cse.nf; f++ {
		var buf [4 + 1]byte
		for j := 0; j < cse.lens[f]; j++ {
			buf[j] = vxU8(vxName(names[f], j))
		}
		fen = fen + " " + string(buf[:cse.lens[f]])
	}
	p := &Position{}
	err := p.setupBoard(fen)
	return p, err
}

func VN_C16_fen_fields() int { return len(vxFenCases()) }
func VQ_C16_fen_fields() int { return 32 }
func VH_C16_fen_fields(i int) {
	p, err := vxFenFieldsSetup(i)
	vxReach("c16.fields.returned")
	if err != nil {
		vxReach("c16.fields.rejected")
		return
	}
	vxReach("c16.fields.accepted")
	vxAssert(p.nextPlayer == White || p.nextPlayer == Black, "fen.accepted-side-to-move-valid")
	vxAssert(p.castlingRights >= CastlingNone && p.castlingRights <= CastlingAny, "fen.accepted-castling-rights-valid")
	ep := p.enPassantSquare
	vxAssert(ep == SqNone || (ep >= SqA1 && ep <= SqH8), "fen.accepted-en-passant-square-on-board")
	vxAssert(ep == SqNone || (p.nextPlayer == White && ep.RankOf() == Rank6) || (p.nextPlayer == Black && ep.RankOf() == Rank3),
		"fen.accepted-en-passant-square-behind-a-double-step-of-the-side-not-to-move")
	vxAssert(p.halfMoveClock >= 0, "fen.accepted-half-move-clock-not-negative")
	vxAssert(p.nextHalfMoveNumber >= 1, "fen.accepted-move-number-positive")
	vxAssert(p.historyCounter == 0, "fen.accepted-history-empty")
}

// C04 base case: a position accepted from FEN satisfies "incremental == recomputed" for every derived
// field including the hash key (same inputs as VH_C16_fen_fields).
func VN_C04_fen_establishes_invariant() int { return len(vxFenCases()) }
func VQ_C04_fen_establishes_invariant() int { return 32 }
func VH_C04_fen_establishes_invariant(i int) {
	p, err := vxFenFieldsSetup(i)
	if err != nil {
		vxReach("c04.fen.rejected")
		return
	}
	vxReach("c04.fen.accepted")
	s := p.VxState()
	d := s.VxRecompute()
	bbs, kings, material, psq, key := p.VxDerivedEq(&d)
	vxAssert(bbs, "fen.accepted-bitboards==recomputed")
	vxAssert(kings, "fen.accepted-king-squares==recomputed")
	vxAssert(material, "fen.accepted-material==recomputed")
	vxAssert(psq, "fen.accepted-piece-square-sums==recomputed")
	vxAssert(p.GamePhase() == vxMin(GamePhaseMax, d.PhaseSum), "fen.accepted-game-phase==recomputed")
	vxAssert(key, "fen.accepted-hash-key==recomputed(board,side,rights,ep-file)")
}

// one putPiece step from an arbitrary position onto an empty square
func VH_C04_putpiece_step() {
	p, s := VxSymPosFreeL("pp", nil)
	pc := Piece(vxI8("piece"))
	sq := Square(vxU8("square"))
	vxAssume(vxValidPiece(pc) && pc != PieceNone && sq < 64 && s.Board[sq] == PieceNone)
	t0 := vxTotalsOf(p)
	n := s
	n.Board[sq] = pc
	p.putPiece(pc, sq)
	want := t0
	want.apply(pc, int(sq), +1)
	vxAssert(p.board == n.Board, "putpiece.board")
	vxAssert(p.material == want.material && p.materialNonPawn == want.nonPawn, "putpiece.material-delta")
	vxAssert(p.psqMidValue == want.psqMid && p.psqEndValue == want.psqEnd, "putpiece.piece-square-delta")
	vxAssert(p.zobristKey == want.key, "putpiece.hash-key-delta")
	c, pt := vxColorOf(pc), vxTypeOf(pc)
	wantBb := s.bbOf(pc) | sq.Bb()
	vxAssert(p.piecesBb[c][pt] == wantBb, "putpiece.piece-bitboard")
	vxAssert(p.occupiedBb[c] == (s.bbOf(vxMake(c, King))|s.bbOf(vxMake(c, Pawn))|s.bbOf(vxMake(c, Knight))|s.bbOf(vxMake(c, Bishop))|s.bbOf(vxMake(c, Rook))|s.bbOf(vxMake(c, Queen))|sq.Bb()), "putpiece.occupancy")
	if pt == King {
		vxAssert(p.kingSquare[c] == sq, "putpiece.king-square")
	}
	vxReach("putpiece.end")
}

// translator validation of the regular-expression model: the four FEN patterns on concrete strings,
// NFA simulation (executor, forced) against the real regexp package (native)
func VT_position_regex_checksum() uint64 {
	vxOpt("regex-force-nfa", "1")
	strs := []string{"", "w", "b", "|", "wb", "-", "KQkq", "Kq", "qK", "KQkqK", "e3", "a6", "h9", "i3", "e", "e33",
		"8/8/8/8/8/8/8/8", "xyz", "x8", "K?", "kq-", "--", "Qk", "k", "a1", "h8", "rnbqkbnr/pppppppp", "9", "+", "w ", " b"}
	var h uint64 = 5
	for _, s := range strs {
		var v uint64
		if regexFenPos.MatchString(s) {
			v |= 1
		}
		if regexWorB.MatchString(s) {
			v |= 2
		}
		if regexCastlingRights.MatchString(s) {
			v |= 4
		}
		if regexEnPassant.MatchString(s) {
			v |= 8
		}
		h = h*31 + v
	}
	return h
}
