package position

import (
	. "github.com/frankkopp/FrankyGo/internal/types"
)

// vxSameObservable asserts field-wise equality of everything observable about two positions
// (undo-stack slots at or above the top of stack are not observable).
func vxAssertRestored(p, b *Position, pre string) {
	vxAssert(p.board == b.board, pre+".board")
	vxAssert(p.piecesBb == b.piecesBb && p.occupiedBb == b.occupiedBb, pre+".bitboards")
	vxAssert(p.kingSquare == b.kingSquare, pre+".king-squares")
	vxAssert(p.castlingRights == b.castlingRights && p.enPassantSquare == b.enPassantSquare &&
		p.halfMoveClock == b.halfMoveClock && p.nextPlayer == b.nextPlayer &&
		p.nextHalfMoveNumber == b.nextHalfMoveNumber, pre+".state-fields")
	vxAssert(p.zobristKey == b.zobristKey, pre+".hash-key")
	vxAssert(p.material == b.material && p.materialNonPawn == b.materialNonPawn, pre+".material")
	vxAssert(p.psqMidValue == b.psqMidValue && p.psqEndValue == b.psqEndValue, pre+".piece-square-sums")
	vxAssert(p.GamePhase() == b.GamePhase(), pre+".game-phase")
	vxAssert(p.gamePhase == b.gamePhase, pre+".game-phase-representation")
	vxAssert(p.hasCheckFlag == b.hasCheckFlag, pre+".in-check-cache")
	vxAssert(p.historyCounter == b.historyCounter, pre+".history-counter")
	i := vxInt(pre + ".anyHistoryIndex")
	vxAssume(i >= 0 && i < b.historyCounter)
	vxAssert(p.history[i] == b.history[i], pre+".undo-stack-below-top")
	vxAssert(p.LastMove() == b.LastMove() && p.LastCapturedPiece() == b.LastCapturedPiece(), pre+".last-move-and-capture")
}

// Do/undo of every pseudo-legal move restores every field. Case split: origin and destination
// square concrete (4096 cases); board, side, rights, ep, clocks, move type, promotion piece, undo
// stack symbolic; additive totals and hash key arbitrary; bitboards arbitrary except on the squares
// the move touches.
func VN_C03_do_undo() int { return vxNumFeasible() }
func VQ_C03_do_undo() int { return 192 }
func VF_C03_do_undo() int { return vxNumSpecial() }
func VH_C03_do_undo(i int) {
	k := vxNthFeasible(i)
	m := vxMoveSqRaw(k)
	p, s := VxSymPosFreeL("", func(s *VxState) VxState { return s.VxSpecDoMove(m) })
	vxAssume(s.VxSpecPseudoLegal(m))
	before := *p
	p.DoMove(m)
	p.UndoMove()
	vxAssertRestored(p, &before, "undo")
	vxReach("do_undo.end")
}

func VH_C03_null_do_undo() {
	p, _ := VxSymPosFree("")
	before := *p
	p.DoNullMove()
	vxAssert(p.nextPlayer == before.nextPlayer.Flip() && p.enPassantSquare == SqNone && p.board == before.board, "nullmove.effect")
	p.UndoNullMove()
	vxAssertRestored(p, &before, "nullundo")
	vxReach("null_do_undo.end")
}

// two nested levels, as a depth-first search does (redundancy check of the inductive argument);
// both moves have concrete squares and types drawn from the 2^28 combinations by the case index.
func VN_C03_nested_T() int { return 1 << 20 }
func VQ_C03_nested_T() int { return 256 }
func VH_C03_nested_T(k int) {
	// spread k over (move1, move2): multiplicative hashing keeps the selection deterministic
	k1 := (k * 2654435761) & (4*4096 - 1)
	k2 := ((k*40503 + 12345) * 2246822519 >> 7) & (4*4096 - 1)
	m1 := vxMoveSqRaw(k1)
	m2 := vxMoveSqRaw2(k2)
	p, s := VxSymPosFreeL("", nil)
	vxAssume(s.VxSpecPseudoLegal(m1))
	s2 := s.VxSpecDoMove(m1)
	vxAssume(s2.VxSpecPseudoLegal(m2))
	before := *p
	p.DoMove(m1)
	p.DoMove(m2)
	p.UndoMove()
	p.UndoMove()
	vxAssertRestored(p, &before, "nested")
	vxReach("nested.end")
}

func vxMoveSqRaw2(k int) Move {
	from, to := Square((k>>6)&63), Square(k&63)
	mt := MoveType(k >> 12)
	prom := PieceType(vxU8("move2.prom"))
	vxAssume(prom >= Knight && prom <= Queen)
	if mt != Promotion {
		prom = Knight
	}
	return CreateMove(from, to, mt, prom)
}
