package position

import (
	. "github.com/frankkopp/FrankyGo/internal/types"
)

const vxGetAttacksBb = "github.com/frankkopp/FrankyGo/internal/types.GetAttacksBb"

// the engine's en-passant convention for IsAttacked: the pawn that has just made a double step is
// "attacked" when an enemy pawn stands next to it (it can be captured en passant).
func (s *VxState) vxEpAttacked(sq Square, by Color) bool {
	if s.Ep == SqNone {
		return false
	}
	f, r := int(sq&7), int(sq>>3)
	var victim, attacker Piece
	var vsq int
	if by == White {
		victim, attacker, vsq = BlackPawn, WhitePawn, int(s.Ep)-8
	} else {
		victim, attacker, vsq = WhitePawn, BlackPawn, int(s.Ep)+8
	}
	if vsq != int(sq) || s.at(f, r) != victim {
		return false
	}
	return s.at(f-1, r) == attacker || s.at(f+1, r) == attacker
}

// IsAttacked == rules (+ en-passant convention) for every square and colour, and never fails.
func VN_C09_is_attacked() int { return 64 }
func VQ_C09_is_attacked() int { return 64 }
func VH_C09_is_attacked(k int) {
	vxStub(vxGetAttacksBb, VxGeoAttacks)
	p, s := VxSymPosL("", false)
	sq := Square(k)
	by := Color(vxU8("by"))
	vxAssume(by < 2)
	got := p.IsAttacked(sq, by)
	vxAssert(got == (s.VxSpecAttacked(sq, by) || s.vxEpAttacked(sq, by)), "IsAttacked==rules+ep-convention")
	vxReach("is_attacked.end")
}

// HasCheck (with an arbitrary but consistent cache) == king of the side to move attacked
func VH_C09_has_check() {
	vxStub(vxGetAttacksBb, VxGeoAttacks)
	p, s := VxSymPosL("", true)
	want := s.VxInCheck(s.Stm)
	c1 := p.HasCheck()
	c2 := p.HasCheck()
	vxAssert(c1 == want, "HasCheck==king-attacked")
	vxAssert(c2 == c1, "HasCheck-cached-answer-stable")
	vxAssert(p.hasCheckFlag != flagTBD, "HasCheck-sets-cache")
	vxReach("has_check.end")
}

// vxIsAttackedSummary is IsAttacked's verified specification (VH_C09_is_attacked shows
// IsAttacked == this for every square, colour and board whose bitboards agree with the board; C04
// shows DoMove keeps them in agreement). Used as a summary inside the legality harness.
func vxIsAttackedSummary(p *Position, sq Square, by Color) bool {
	s := p.VxState()
	return s.VxSpecAttacked(sq, by) || s.vxEpAttacked(sq, by)
}

// IsLegalMove / DoMove+WasLegalMove == rules. Case split: origin, destination, move type concrete.
func VN_C09_move_legality() int { return vxNumFeasible() }
func VQ_C09_move_legality() int { return 16 }
func VH_C09_move_legality(i int) {
	k := vxNthFeasible(i)
	vxStub("(*github.com/frankkopp/FrankyGo/internal/position.Position).IsAttacked", vxIsAttackedSummary)
	m := vxMoveSqRaw(k)
	p, s := VxSymPosL("", true)
	vxAssume(s.VxSpecPseudoLegal(m))
	legal := s.VxSpecLegal(m)
	vxAssert(p.IsCapturingMove(m) == (s.Board[m.To()] != PieceNone || m.MoveType() == EnPassant), "IsCapturingMove")
	before := *p
	vxAssert(p.IsLegalMove(m) == legal, "IsLegalMove==rules")
	vxAssert(p.board == before.board && p.zobristKey == before.zobristKey && p.historyCounter == before.historyCounter &&
		p.nextPlayer == before.nextPlayer, "IsLegalMove-leaves-position")
	p.DoMove(m)
	vxAssert(p.WasLegalMove() == legal, "WasLegalMove==rules")
	vxReach("move_legality.end")
}

// GivesCheck(m) == the opponent is in check after m (legal moves: for an illegal king step next to
// the enemy king "check" is not defined by the rules).
func VN_C09_gives_check() int { return vxNumFeasible() }
func VQ_C09_gives_check() int { return 8 }
func VF_C09_gives_check() int { return vxNumSpecial() } // castling, en passant and promotions are always included
func VH_C09_gives_check(i int) {
	k := vxNthFeasible(i)
	vxStub(vxGetAttacksBb, VxGeoAttacks)
	m := vxMoveSqRaw(k)
	p, s := VxSymPosL("", true)
	vxAssume(s.VxSpecLegal(m))
	n := s.VxSpecDoMove(m)
	vxAssert(p.GivesCheck(m) == n.VxInCheck(n.Stm), "GivesCheck==opponent-in-check-after-move")
	vxReach("gives_check.end")
}
