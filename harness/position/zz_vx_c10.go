package position

import (
	. "github.com/frankkopp/FrankyGo/internal/types"
)

// C10 (repetition): CheckRepetitions(n) == "at least n earlier positions of the game equal the
// current one". Positions are identified with their hash keys (the property is stated up to 64-bit
// collisions). History length h is the case parameter (concrete), contents symbolic.
// Game-history facts assumed (each follows from the rules via C02 and is listed in the evidence):
//  (A1) the half-move clock of consecutive positions is either +1 or reset to 0;
//  (A2) equal positions have the same side to move, i.e. their indices have equal parity;
//  (A3) no clock reset (irreversible move) lies between two equal positions.
func VN_C10_repetition() int { return 41 }
func VQ_C10_repetition() int { return 17 }
func VH_C10_repetition(h int) {
	p := &Position{}
	vxHavocBig("history", &p.history)
	p.historyCounter = h
	p.zobristKey = Key(vxU64("key.now"))
	p.halfMoveClock = vxInt("clock.now")
	vxAssume(p.halfMoveClock >= 0 && p.halfMoveClock < 1<<20)
	// position i (i<h) has key history[i].zobristKey and clock history[i].halfMoveClock; position h is current
	keyAt := func(i int) Key {
		if i == h {
			return p.zobristKey
		}
		return p.history[i].zobristKey
	}
	clockAt := func(i int) int {
		if i == h {
			return int(p.halfMoveClock)
		}
		return int(p.history[i].halfMoveClock)
	}
	for i := 0; i < h; i++ {
		vxAssume(clockAt(i) >= 0 && clockAt(i) < 1<<20)
		vxAssume(clockAt(i+1) == clockAt(i)+1 || clockAt(i+1) == 0) // A1
	}
	for i := 0; i <= h; i++ {
		for j := i + 1; j <= h; j++ {
			if keyAt(i) == keyAt(j) {
				vxAssume((j-i)%2 == 0) // A2
				for k := i + 1; k <= j; k++ {
					vxAssume(clockAt(k) != 0) // A3
				}
			}
		}
	}
	n := vxInt("reps")
	vxAssume(n >= 1 && n <= 3)
	count := 0
	for i := 0; i < h; i++ {
		if keyAt(i) == p.zobristKey {
			count++
		}
	}
	got := p.CheckRepetitions(n)
	vxAssert(got == (count >= n), "CheckRepetitions(n)==(earlier-equal-positions>=n)")
	if h >= 8 && count >= 2 {
		vxReach("repetition.threefold")
	}
	vxReach("repetition.end")
}

// C10 (material): symbolic numbers of every piece kind; the position's material fields are the
// engine's own per-piece values times the counts.
func vxMaterialPos(tag string) (*Position, [2][6]int) {
	p := &Position{}
	var cnt [2][6]int // P, N, Blight, Bdark, R, Q
	for c := 0; c < 2; c++ {
		for k := 0; k < 6; k++ {
			cnt[c][k] = vxInt(vxName(vxName(tag+"count", c), k))
			vxAssume(cnt[c][k] >= 0 && cnt[c][k] <= 10)
		}
		vxAssume(cnt[c][0] <= 8)
		np := cnt[c][1]*int(Knight.ValueOf()) + (cnt[c][2]+cnt[c][3])*int(Bishop.ValueOf()) +
			cnt[c][4]*int(Rook.ValueOf()) + cnt[c][5]*int(Queen.ValueOf())
		p.materialNonPawn[c] = Value(np)
		p.material[c] = Value(np + cnt[c][0]*int(Pawn.ValueOf()) + int(King.ValueOf()))
		pawns := Bitboard(vxU64(vxName(tag+"pawnsBb", c)))
		vxAssume(pawns.PopCount() == cnt[c][0])
		p.piecesBb[c][Pawn] = pawns
		rooks := Bitboard(vxU64(vxName(tag+"rooksBb", c)))
		vxAssume(rooks.PopCount() == cnt[c][4])
		p.piecesBb[c][Rook] = rooks
		queens := Bitboard(vxU64(vxName(tag+"queensBb", c)))
		vxAssume(queens.PopCount() == cnt[c][5])
		p.piecesBb[c][Queen] = queens
	}
	return p, cnt
}

func VH_C10_insufficient_material() {
	p, n := vxMaterialPos("")
	got := p.HasInsufficientMaterial()
	minors := func(c int) int { return n[c][1] + n[c][2] + n[c][3] }
	heavy := func(c int) int { return n[c][0] + n[c][4] + n[c][5] }
	bare := func(c int) bool { return minors(c) == 0 && heavy(c) == 0 }
	noHeavy := heavy(0) == 0 && heavy(1) == 0
	// dead positions
	if noHeavy && bare(0) && bare(1) {
		vxAssert(got, "insufficient.bare-kings")
	}
	if noHeavy && ((minors(0) == 1 && bare(1)) || (minors(1) == 1 && bare(0))) {
		vxAssert(got, "insufficient.king+minor-v-king")
	}
	if noHeavy && n[0][1] == 0 && n[1][1] == 0 && minors(0) == 1 && minors(1) == 1 &&
		((n[0][2] == 1 && n[1][2] == 1) || (n[0][3] == 1 && n[1][3] == 1)) {
		vxAssert(got, "insufficient.same-coloured-single-bishops")
	}
	// never with a pawn, rook or queen on the board
	if !noHeavy {
		vxAssert(!got, "sufficient.pawn-rook-or-queen-present")
	}
	// mating material against a bare king
	for c := 0; c < 2; c++ {
		o := 1 - c
		if noHeavy && bare(o) && n[c][1] == 1 && n[c][2]+n[c][3] == 1 {
			vxAssert(!got, "sufficient.bishop+knight-v-bare-king")
		}
		if noHeavy && bare(o) && n[c][1] == 0 && n[c][2] == 1 && n[c][3] == 1 {
			vxAssert(!got, "sufficient.opposite-coloured-bishop-pair-v-bare-king")
		}
	}
	vxReach("insufficient_material.end")
}
