#!/usr/bin/env python3
# Generates MANIFEST.json from the table below (kept in one place so it stays consistent).
import json, subprocess
TECH = "bounded symbolic execution of the real go/ssa code (own SSA->SMT-LIB2 encoder gosmx), obligations decided by z3; counterexamples replayed natively"
P = {
 "C17": dict(ref="§4 C17", text="SMT-decided over all 2^16 move-field combinations x all int16 sort values (bit-vector semantics of the real CreateMove/getters/SetValue); notation half: see level_note",
             note="Encoding half complete (no bound). Trusted: gosmx encoder, z3. Notation (UCI/SAN parsing) sub-claims are bounded as stated in DESIGN.md §4 C17."),
 "C18": dict(ref="§4 C18", text="every table getter vs file/rank geometry: sliding attacks for all 64 squares x every subset of the square's mask (enumerated) x all remaining occupancy bits (symbolic); all other tables with symbolic squares/colours; shifts and bit scans over a symbolic 64-bit board",
             note="No bound beyond the stated case split (exhaustive). Tables are the values computed by the real init() (dumped natively each run). Trusted: gosmx encoder incl. its constant folder, z3."),
 "C11": dict(ref="§4 C11", text="one arbitrary operation (Put/Probe/GetEntry/Clear/Resize/AgeEntries/Hashfull) from an arbitrary table state satisfying the representation invariant; capacity a symbolic power of two up to 2^32, contents an uninterpreted SMT array; inductive over all operation sequences",
             note="AgeEntries unrolled for capacities 2^0..2^6 (quick) / 2^10 (thorough), goroutine bodies executed sequentially (no race claim). floor(log2(float64(x))) modelled as highest-set-bit index. Known findings: MoveNone value loss, key 0 as empty marker."),
 "C02": dict(ref="§4 C02", text="DoMove vs the mail-box rule model (VxSpecDoMove) one step from an arbitrary well-formed position: all 13^64 boards, side, rights, ep, clocks, undo-stack height 0..510 and every pseudo-legal move symbolic; induction over move sequences",
             note="Case split on the move type only. Assumes the position is well-formed (one king per colour, no pawns on back ranks, castling rights only with king/rook at home, consistent ep square) - weaker than legality. Rule model (harness/position/zz_vx_spec.go) is trusted; FEN text building is checked in C16."),
 "C03": dict(ref="§4 C03", text="DoMove;UndoMove and DoNullMove;UndoNullMove restore every field incl. the undo stack below the top, from arbitrary (even inconsistent) additive totals and hash key; origin/destination/move type case-split (16384 cases; quick: 192 by seed), rest symbolic",
             note="Nested sequences follow by induction (inner pair only writes slots above its base); two-level nesting re-checked on 256 seeded move pairs in thorough. Bitboards arbitrary except on the squares the move touches."),
 "C04": dict(ref="§4 C04", text="DoMove/DoNullMove change material, non-pawn material, both piece-square sums, game phase and hash key by exactly the rule-defined per-square delta (pre-state totals arbitrary), bitboards/king squares equal their recomputation; Zobrist table entries non-zero and pairwise distinct",
             note="Uses the sum-difference lemma (changing the board on a set D changes a per-square sum/XOR by the differences on D), stated in DESIGN.md, not machine-checked. Base case (FEN set-up establishes totals == recomputation incl. ep file and castling state in the key) is part of C16's FEN harness. 16384 concrete (from,to,type) cases; quick 192 by seed."),
 "C09": dict(ref="§4 C09", text="IsAttacked (all 64 squares x both colours, with run-time checks = 'never fails'), HasCheck incl. cache, GivesCheck, IsCapturingMove, IsLegalMove, DoMove+WasLegalMove against the mail-box rule model on a fully symbolic legal position",
             note="Sliding lookups summarised by the geometric ray walk that C18 proves equal to GetAttacksBb. GivesCheck compared for legal moves only (a king 'checking' a king is not defined). Move predicates: 16384 concrete (from,to,type) cases, quick 96 by seed. AttacksTo: see harness/attacks."),
 "C10": dict(ref="§4 C10", text="CheckRepetitions(n) == (#earlier equal positions >= n) for every history of length <= 16 (quick) / 40 (thorough) with symbolic keys and clocks; HasInsufficientMaterial on symbolic piece counts 0..10 per kind and colour; clock update is C02's obligation",
             note="Repetition: positions identified with 64-bit keys (collisions excluded as the property states); assumes three game-history facts (clock steps, parity, no reset between equal positions) that follow from C02."),
 "C01": dict(ref="§4 C01", text="lemma L1: each of the four generators (pawns, king, officers, castling) in each mode emits an arbitrary target move exactly [rules allow it and it is in the generator's class] times, on a fully symbolic well-formed position, with the promotions-as-non-quiet switch symbolic (512 cases = generator x mode x target origin square; quick 128 by seed); L2 legality filter = C09; composition/perft lemmas see level_note",
             note="Membership formulation with PushBack replaced by a counting observer; bit-scan loops executed as 64 guarded iterations (licensed by C18's PopLsb lemma); sliding lookups summarised by C18. King-capture targets additionally assume the side not to move is not in check (legal positions). Perft equality follows from L1+L2+C02/C03 by induction on depth; the perft driver itself is not yet encoded."),
 "C08": dict(ref="§4 C08", text="quick has-legal-move test: with IsLegalMove replaced by an observer, every candidate HasLegalMove tries is a pseudo-legal move (up to promotion piece), every pseudo-legal non-castling move (arbitrary target; origin square = case) is tried, and the answer is true exactly when a tried candidate is judged legal (uninterpreted verdicts) - on a fully symbolic well-formed position; with C09 (IsLegalMove == rules) this is HasLegalMove == (legal move list non-empty)",
             note="PARTIAL: the phased on-demand generator state machine (PV first, killers, stage order, reuse across positions) and evasion-mode generation are NOT encoded in this session - only the has-legal-move clause and (via C01) the batch generators. Origin squares: 64 cases, quick 4 by seed."),
 "C13": dict(ref="§4 C13", text="time budget (real setupTimeControl incl. its float64 arithmetic): budget >= 0, <= mover's remaining clock time, engine's moves-left estimate >= 15 when none announced, per-move share in range, moves*share <= remaining + moves*increment; times/increments symbolic < 2^44 ns, moves-to-go 1..64 and game phase 0..24 case-split (90 cases; quick 12); fixed move time: budget <= move time",
             note="PARTIAL: the clause budget <= per-move share (two float conversions and a product) and the monolithic moves*budget bound run in the thorough tier only (30-110 s per case, solver portfolio). Integer division by constants is abstracted by its defining inequalities. NOT encoded: timer goroutine / wall-clock promptness, depth-limited iteration count, node-limit overshoot, searchmoves (the engine never consults Limits.Moves and the UCI token is parsed as 'moves': see DESIGN §6)."),
 "C15": dict(ref="§4 C15", text="Evaluate on a symbolic well-formed position with arbitrary (bounded) material/piece-square totals: value independent of the evaluator instance and of earlier evaluations (instance fields and the package-level scratch score arbitrary), position unchanged, insufficient material => 0, colour-mirror symmetry; lazy-evaluation and advanced-piece-evaluation switches case-split; value tables colour-symmetric (data obligation)",
             note="(*Score).ValueFromScore is summarised by an uninterpreted function that is odd by construction; oddness of the real float64 code is a thorough-tier obligation (VH_C15_value_from_score_odd_T). Quick: purity for 3 of 4 switch combinations, symmetry for the default switches. Known findings: tempo bonus sign for Black, four asymmetric piece-square entries. History independence follows from C03/C04 (the value is a function of fields those restore / maintain)."),
 "C14": dict(ref="§4 C14", text="sequentialised thread-modular harnesses on the real StartSearch / run / startTimer code with semaphores as their own counters: a start request never blocks the controller (also while a search is running); run() delivers exactly one result, for infinite/ponder only after stop was observed, and releases isRunning and the init semaphore on every exit; the timer body sets the stop flag only for the search it was started for under an environment that may end/restart searches at every sleep",
             note="PARTIAL: data-race freedom is NOT claimed (plain-bool stop flag shared by three goroutines; needs a happens-before analysis outside this technique); preemption is only modelled at Sleep/semaphore operations; <=3 polls of the wait/timer loops (unwinding-checked under a fairness assumption: stop arrives / the clock passes the limit within 3 polls). Counterexamples are abstract (environment choices) and are not replayed natively. Known finding: stale timer stops the next search."),
 "C20": dict(ref="§4 C20", text="initialize / loadFromCache / saveToCache with every file-system and gob outcome nondeterministic (Open fails, Decode fails with arbitrary map contents, ...) and bookLock modelled by its own state word: no path re-locks the held lock (the hang), initialize returns with the lock released, a failed cache load is followed by a source build that starts with the lock free and a fresh map, a cache hit skips the build",
             note="PARTIAL: the gob codec itself (exact save/load round trip, every truncation makes Decode fail) is a library contract and is NOT decided; the native witness replays the lock obligations with a real garbage cache file."),
 "C05": dict(ref="§4 C05-C07", text="root iteration of the real rootSearch with every child result arbitrary (incl. 'stopped') and stop arriving at any check: the first iteration always writes the root PV, every write stores a legal root move first (so pv[0][0] - the reported best move - is a legal root move by induction over iterations), no buffer is indexed out of range; savePV = move followed by the child line (lengths <= 3); draw-at-root behaviour (known finding)",
             note="PARTIAL: <=3 root moves; legality of the whole PV and of the ponder move (stale child PV buffers) and termination under every limit are NOT encoded; 'position left unchanged' follows from StartSearch taking the position by value (not encoded). Contracts: search() results arbitrary in [ValueMin,ValueMax] or ValueNA. Counterexamples are abstract (not replayed natively)."),
 "C06": dict(ref="§4 C05-C07", text="one node of the real search() with every unsound heuristic off and PVS, killer, IID, mate-distance pruning, hash-move ordering symbolic: for <=3 scripted pseudo-legal moves with arbitrary legality/draw flags and ghost true child values, recursive calls replaced by the fail-soft exactness contract, the node's result satisfies the same contract w.r.t. max(-child) / mate / stalemate and its own window (alpha,beta): fail-low is an upper bound, fail-high a lower bound, in-window is exact - the inductive step of 'depth-d search == minimax value'",
             note="PARTIAL/inductive: <=3 moves per node (vxK), ply 1, depth 1..12; quiescence and root nodes and the single-root-move exception are not encoded; history/counter-move tables only influence the (scripted) generator order and are switched off inside the node. Base case (leaf = evaluation) and the generator contract (C01/C08) are separate. Abstract counterexamples."),
 "C07": dict(ref="§4 C05-C07", text="one node of the real search() and qsearch() with ALL switches symbolic (default configuration included) and <=3 scripted moves: whenever the mate or stalemate counter is incremented no scripted move is legal and the in-check status matches, with the right value; a root without legal moves is reported as mated (-mate) in check and draw otherwise (real iterativeDeepening)",
             note="The script is the complete pseudo-legal move list (C01/C08 contract); HasLegalMove (used by the repaired code) is summarised by 'some scripted move is legal' (C08). <=3 moves per node. Abstract counterexamples. Fixed finding: all-moves-futile node scored as stalemate."),
}
NA = {}
for i in range(1,21):
    k = "C%02d"%i
    if k not in P:
        NA[k] = "check under construction in this session (see DESIGN.md §4 for the planned encoding)"
checks=[]
for k in sorted(P):
    d=P[k]
    checks.append({
      "property_id": k,
      "quick_cmd": "./check %s --tier quick"%k,
      "thorough_cmd": "./check %s --tier thorough"%k,
      "evidence_file": "evidence/%s.json"%k,
      "replay_cmd_template": "./check %s --replay {path}"%k,
      "engine": "gosmx",
      "level_claimed": {"category":"model_checking","text":d["text"],"design_ref":d["ref"]},
      "level_note": d["note"],
      "technique": TECH,
    })
m={
 "version":1,
 "setup_cmd":"cd gosmx && GOFLAGS=-mod=mod GOPROXY=off GOSUMDB=off GOTOOLCHAIN=local go build -o ../bin/gosmx . && cd .. && ./bin/gosmx selftest",
 "hooks":{"guard":"verif","enable":"none needed: harnesses are injected in-package through go/packages overlays and `go test -overlay` (no source changes in /repo)",
          "baseline_off_cmd":"cd /repo && go test -vet=off -count=1 -timeout 25m ./...","source_commits":[],"add_only":True},
 "engines":[{"name":"gosmx","path":"gosmx/","serves_properties":sorted(P),"kind_free_text":"go/ssa -> SMT-LIB2 bounded symbolic executor with native replay"}],
 "checks":checks,
 "not_applicable":[{"property_id":k,"reason":NA[k]} for k in sorted(NA)],
 "notes":"All checks rebuild the encoding from /repo's working tree on every run. Fix commits in /repo are listed in known_findings.json (status fixed).",
}
json.dump(m,open("MANIFEST.json","w"),indent=1)
print("manifest:",len(checks),"checks,",len(NA),"not applicable")
