package main

// Cone-of-influence slicing of assumptions: an obligation is checked under exactly those
// assumptions that (transitively) share a variable or uninterpreted function with it. Dropping the
// others is sound for "unsat"; for "sat" the remaining, variable-disjoint assumptions are solved
// separately and the two models are merged before replay.

type varSets struct {
	c    *Ctx
	memo map[int32][]uint64
	idx  map[string]int
	nw   int
}

func newVarSets(c *Ctx) *varSets {
	return &varSets{c: c, memo: map[int32][]uint64{}, idx: map[string]int{}, nw: (len(c.Vars)+64)/64 + 4}
}

func (vs *varSets) varIndex(name string) int {
	if i, ok := vs.idx[name]; ok {
		return i
	}
	i := len(vs.idx)
	if i >= vs.nw*64 {
		// grow: rare (uninterpreted function names); re-allocate lazily by widening all memo entries
		vs.nw *= 2
		for k, v := range vs.memo {
			nv := make([]uint64, vs.nw)
			copy(nv, v)
			vs.memo[k] = nv
		}
	}
	vs.idx[name] = i
	return i
}

func (vs *varSets) of(root *Term) []uint64 {
	if s, ok := vs.memo[root.ID]; ok {
		return s
	}
	type fr struct {
		t *Term
		i int
	}
	st := []fr{{root, 0}}
	for len(st) > 0 {
		f := &st[len(st)-1]
		if _, ok := vs.memo[f.t.ID]; ok {
			st = st[:len(st)-1]
			continue
		}
		if f.i < len(f.t.A) {
			ch := f.t.A[f.i]
			f.i++
			if _, ok := vs.memo[ch.ID]; !ok {
				st = append(st, fr{ch, 0})
			}
			continue
		}
		t := f.t
		var s []uint64
		switch {
		case t.Op == OVar:
			s = make([]uint64, vs.nw)
			i := vs.varIndex("v:" + t.Name)
			s[i/64] |= 1 << uint(i%64)
		case len(t.A) == 0:
			s = nil
		default:
			if len(t.A) == 1 && t.Op != OApply {
				s = vs.memo[t.A[0].ID]
			} else {
				s = make([]uint64, vs.nw)
				for _, a := range t.A {
					for k, w := range vs.memo[a.ID] {
						s[k] |= w
					}
				}
				if t.Op == OApply {
					i := vs.varIndex("f:" + t.Name)
					if i/64 >= len(s) {
						ns := make([]uint64, vs.nw)
						copy(ns, s)
						s = ns
					}
					s[i/64] |= 1 << uint(i%64)
				}
			}
		}
		vs.memo[t.ID] = s
		st = st[:len(st)-1]
	}
	return vs.memo[root.ID]
}

func intersects(a, b []uint64) bool {
	n := len(a)
	if len(b) < n {
		n = len(b)
	}
	for i := 0; i < n; i++ {
		if a[i]&b[i] != 0 {
			return true
		}
	}
	return false
}

func orInto(dst *[]uint64, src []uint64) {
	for len(*dst) < len(src) {
		*dst = append(*dst, 0)
	}
	for i, w := range src {
		(*dst)[i] |= w
	}
}

// sliceAssumptions returns the assumptions relevant to cond (in their original order) and the rest.
func (vs *varSets) sliceAssumptions(assumes []*Term, cond *Term) (rel, rest []*Term) {
	cone := append([]uint64(nil), vs.of(cond)...)
	sets := make([][]uint64, len(assumes))
	in := make([]bool, len(assumes))
	for i, a := range assumes {
		sets[i] = vs.of(a)
		if sets[i] == nil { // constant assumption: always keep
			in[i] = true
		}
	}
	for changed := true; changed; {
		changed = false
		for i := range assumes {
			if !in[i] && intersects(sets[i], cone) {
				in[i] = true
				orInto(&cone, sets[i])
				changed = true
			}
		}
	}
	for i, a := range assumes {
		if in[i] {
			rel = append(rel, a)
		} else {
			rest = append(rest, a)
		}
	}
	return
}
