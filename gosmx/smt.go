package main

// SMT-LIB2 printing of term DAGs and a pool of long-lived solver processes.

import (
	"bufio"
	"os"
	"syscall"
	"fmt"
	"io"
	"os/exec"
	"strconv"
	"strings"
	"sync"
	"time"
)

func constStr(t *Term) string {
	switch t.Sort.K {
	case SBool:
		if t.K == 1 {
			return "true"
		}
		return "false"
	case SBV:
		if t.Sort.W%4 == 0 {
			return fmt.Sprintf("#x%0*x", t.Sort.W/4, t.K)
		}
		return fmt.Sprintf("#b%0*b", t.Sort.W, t.K)
	}
	panic("constStr")
}

// Query is a printed satisfiability problem.
type Query struct {
	Text    string
	VarList []*Term // scalar variables (for get-value)
	Nodes   int
	Cells   []cellReq // array cells read by the query (for model extraction)
	HasFP   bool
	Decl    map[string]bool
}

type cellReq struct {
	Arr string // base array variable
	Idx string // declared constant equal to the index term
	Val string // declared constant standing for select(Arr, Idx)
	ElW int
}

const maxAckCells = 400

func (c *Ctx) BuildQuery(asserts []*Term) *Query {
	var sb strings.Builder
	seen := map[int32]bool{}
	var order []*Term
	var visit func(t *Term)
	// iterative DFS to avoid deep recursion
	visit = func(root *Term) {
		type fr struct {
			t *Term
			i int
		}
		st := []fr{{root, 0}}
		for len(st) > 0 {
			f := &st[len(st)-1]
			if f.i == 0 && seen[f.t.ID] {
				st = st[:len(st)-1]
				continue
			}
			if f.i < len(f.t.A) {
				ch := f.t.A[f.i]
				f.i++
				if !seen[ch.ID] {
					st = append(st, fr{ch, 0})
				}
				continue
			}
			seen[f.t.ID] = true
			order = append(order, f.t)
			st = st[:len(st)-1]
		}
	}
	for _, a := range asserts {
		visit(a)
	}
	q := &Query{Nodes: len(order), Decl: map[string]bool{}}
	if os.Getenv("VX_DEBUG_OPS") != "" && len(order) > 20000 {
		h := map[string]int{}
		for _, t := range order {
			n := opNames[t.Op]
			if n == "" {
				n = fmt.Sprintf("op%d", t.Op)
			}
			if t.Op == OIte {
				n += ":" + t.Sort.String()
			}
			h[n]++
		}
		fmt.Fprintf(os.Stderr, "OPS(%d): %v\n", len(order), h)
	}
	name := func(t *Term) string {
		switch t.Op {
		case OConst:
			return constStr(t)
		case OVar:
			return "|" + t.Name + "|"
		}
		return "t" + strconv.Itoa(int(t.ID))
	}
	ufs := map[string]bool{}
	var lets strings.Builder
	nlets := 0
	var cellEqs []string
	for _, t := range order {
		switch t.Op {
		case OConst:
			continue
		case OVar:
			fmt.Fprintf(&sb, "(declare-fun |%s| () %s)\n", t.Name, t.Sort)
			q.Decl[t.Name] = true
			if t.Sort.K != SArr {
				q.VarList = append(q.VarList, t)
			}
			continue
		case OApply:
			if !ufs[t.Name] {
				ufs[t.Name] = true
				fmt.Fprintf(&sb, "(declare-fun |%s| (", t.Name)
				for _, a := range t.A {
					sb.WriteString(a.Sort.String() + " ")
				}
				fmt.Fprintf(&sb, ") %s)\n", t.Sort)
			}
		}
		if t.Op == OSelect && t.A[0].Op == OVar && len(q.Cells) < maxAckCells {
			// Ackermann-style array elimination: select(A, idx) becomes a fresh constant; functional
			// consistency constraints are added below.
			k := len(q.Cells)
			cn := fmt.Sprintf("|vx.cell.%d|", k)
			vn := fmt.Sprintf("|vx.cellval.%d|", k)
			fmt.Fprintf(&sb, "(declare-fun %s () %s)\n(declare-fun %s () %s)\n", cn, t.A[1].Sort, vn, t.Sort)
			cellEqs = append(cellEqs, fmt.Sprintf("(= %s %s)", cn, name(t.A[1])))
			q.Cells = append(q.Cells, cellReq{Arr: t.A[0].Name, Idx: cn, Val: vn, ElW: t.Sort.W})
			fmt.Fprintf(&lets, "(let ((t%d %s))\n", t.ID, vn)
			nlets++
			continue
		}
		if t.Op >= OFpFromBits {
			q.HasFP = true
		}
		fmt.Fprintf(&lets, "(let ((t%d ", t.ID)
		nlets++
		sb2 := &lets
		switch t.Op {
		case OExtract:
			fmt.Fprintf(sb2, "((_ extract %d %d) %s)", t.K>>8, t.K&255, name(t.A[0]))
		case OZeroExt:
			fmt.Fprintf(sb2, "((_ zero_extend %d) %s)", t.K, name(t.A[0]))
		case OSignExt:
			fmt.Fprintf(sb2, "((_ sign_extend %d) %s)", t.K, name(t.A[0]))
		case OConstArr:
			fmt.Fprintf(sb2, "((as const %s) %s)", t.Sort, name(t.A[0]))
		case OApply:
			fmt.Fprintf(sb2, "(|%s|", t.Name)
			for _, a := range t.A {
				sb2.WriteString(" " + name(a))
			}
			sb2.WriteString(")")
		case OFpFromBits:
			fmt.Fprintf(sb2, "((_ to_fp 11 53) %s)", name(t.A[0]))
		case OFpFromSInt:
			fmt.Fprintf(sb2, "((_ to_fp 11 53) RNE %s)", name(t.A[0]))
		case OFpFromUInt:
			fmt.Fprintf(sb2, "((_ to_fp_unsigned 11 53) RNE %s)", name(t.A[0]))
		case OFpToSInt:
			fmt.Fprintf(sb2, "((_ fp.to_sbv %d) RTZ %s)", t.K, name(t.A[0]))
		case OFpToUInt:
			fmt.Fprintf(sb2, "((_ fp.to_ubv %d) RTZ %s)", t.K, name(t.A[0]))
		default:
			on, ok := opNames[t.Op]
			if !ok {
				panic(fmt.Sprintf("print: op %d", t.Op))
			}
			sb2.WriteString("(" + on)
			for _, a := range t.A {
				sb2.WriteString(" " + name(a))
			}
			sb2.WriteString(")")
		}
		lets.WriteString("))\n")
	}
	for i := range q.Cells {
		for j := i + 1; j < len(q.Cells); j++ {
			if q.Cells[i].Arr == q.Cells[j].Arr {
				cellEqs = append(cellEqs, fmt.Sprintf("(=> (= %s %s) (= %s %s))", q.Cells[i].Idx, q.Cells[j].Idx, q.Cells[i].Val, q.Cells[j].Val))
			}
		}
	}
	// arrays that are only ever read through eliminated selects need no declaration; harmless if kept
	sb.WriteString("(assert ")
	sb.WriteString(lets.String())
	sb.WriteString("(and true")
	for _, a := range asserts {
		sb.WriteString(" " + name(a))
	}
	for _, e := range cellEqs {
		sb.WriteString(" " + e)
	}
	sb.WriteString(")")
	sb.WriteString(strings.Repeat(")", nlets))
	sb.WriteString(")\n")
	q.Text = sb.String()
	return q
}

// baseArrays returns the array variables at the bottom of a store/ite chain.
func baseArrays(a *Term) []*Term {
	var out []*Term
	seen := map[int32]bool{}
	var rec func(t *Term)
	rec = func(t *Term) {
		if seen[t.ID] {
			return
		}
		seen[t.ID] = true
		switch t.Op {
		case OVar:
			out = append(out, t)
		case OStore:
			rec(t.A[0])
		case OIte:
			rec(t.A[1])
			rec(t.A[2])
		}
	}
	rec(a)
	return out
}

type SolveResult struct {
	Status string // sat | unsat | unknown | error
	Model  map[string]uint64
	Raw    string
	Secs   float64
}

type Solver struct {
	cmd  *exec.Cmd
	in   io.WriteCloser
	out  *bufio.Reader
	kind string
	mu   sync.Mutex
}

var solverBin = map[string][]string{
	"z3":    {"z3", "-in"},
	"z3new": {"z3-new", "-in"},
	"cvc5":  {"cvc5", "--incremental", "--lang=smt2", "--produce-models"},
	"cvc5int": {"cvc5", "--incremental", "--lang=smt2", "--produce-models", "--solve-bv-as-int=sum"},
}

func startSolver(kind string) (*Solver, error) {
	a := solverBin[kind]
	cmd := exec.Command(a[0], a[1:]...)
	cmd.SysProcAttr = &syscall.SysProcAttr{Pdeathsig: syscall.SIGKILL} // solvers die with gosmx
	in, err := cmd.StdinPipe()
	if err != nil {
		return nil, err
	}
	outp, err := cmd.StdoutPipe()
	if err != nil {
		return nil, err
	}
	cmd.Stderr = cmd.Stdout
	if err := cmd.Start(); err != nil {
		return nil, err
	}
	return &Solver{cmd: cmd, in: in, out: bufio.NewReaderSize(outp, 1<<20), kind: kind}, nil
}

func (s *Solver) kill() {
	if s.cmd != nil && s.cmd.Process != nil {
		s.cmd.Process.Kill()
		s.cmd.Wait()
	}
}

// readUntil reads lines until the marker line; returns the text before it.
func (s *Solver) readUntil(marker string, deadline time.Duration) (string, error) {
	type res struct {
		s   string
		err error
	}
	ch := make(chan res, 1)
	go func() {
		var sb strings.Builder
		for {
			line, err := s.out.ReadString('\n')
			if strings.Trim(strings.TrimSpace(line), "\"") == marker {
				ch <- res{sb.String(), nil}
				return
			}
			sb.WriteString(line)
			if err != nil {
				ch <- res{sb.String(), err}
				return
			}
		}
	}()
	select {
	case r := <-ch:
		return r.s, r.err
	case <-time.After(deadline):
		s.kill()
		<-ch
		return "", fmt.Errorf("timeout")
	}
}

var markerN int
var markerMu sync.Mutex

func nextMarker() string {
	markerMu.Lock()
	defer markerMu.Unlock()
	markerN++
	return fmt.Sprintf("vxdone%d", markerN)
}

func (s *Solver) Solve(q *Query, timeoutSec int, wantModel bool) (*SolveResult, bool) {
	t0 := time.Now()
	mk := nextMarker()
	var sb strings.Builder
	sb.WriteString("(reset)\n")
	if strings.HasPrefix(s.kind, "cvc5") {
		fmt.Fprintf(&sb, "(set-option :tlimit-per %d)\n(set-logic ALL)\n", timeoutSec*1000)
	} else {
		fmt.Fprintf(&sb, "(set-option :timeout %d)\n", timeoutSec*1000)
	}
	sb.WriteString(q.Text)
	sb.WriteString("(check-sat)\n")
	fmt.Fprintf(&sb, "(echo \"%s\")\n", mk)
	if _, err := io.WriteString(s.in, sb.String()); err != nil {
		return &SolveResult{Status: "error", Raw: err.Error()}, false
	}
	out, err := s.readUntil(mk, time.Duration(timeoutSec+10)*time.Second)
	r := &SolveResult{Raw: out}
	if err != nil {
		r.Status = "unknown"
		r.Raw = "timeout/killed: " + err.Error()
		r.Secs = time.Since(t0).Seconds()
		return r, false
	}
	if strings.Contains(out, "(error") {
		r.Status = "error"
		r.Secs = time.Since(t0).Seconds()
		return r, true
	}
	lines := strings.Fields(out)
	st := ""
	if len(lines) > 0 {
		st = lines[len(lines)-1]
	}
	switch st {
	case "sat", "unsat", "unknown":
		r.Status = st
	default:
		r.Status = "error"
	}
	if r.Status == "sat" && wantModel && len(q.VarList) > 0 {
		mk2 := nextMarker()
		var gb strings.Builder
		gb.WriteString("(get-value (")
		for _, v := range q.VarList {
			if v.Sort.K == SFP {
				continue
			}
			gb.WriteString("|" + v.Name + "| ")
		}
		gb.WriteString("))\n")
		fmt.Fprintf(&gb, "(echo \"%s\")\n", mk2)
		io.WriteString(s.in, gb.String())
		mout, err := s.readUntil(mk2, 60*time.Second)
		if err == nil {
			r.Model = parseModel(mout)
		} else {
			r.Secs = time.Since(t0).Seconds()
			return r, false
		}
	}
	if r.Status == "sat" && wantModel && len(q.Cells) > 0 {
		if r.Model == nil {
			r.Model = map[string]uint64{}
		}
		mk3 := nextMarker()
		var gb strings.Builder
		gb.WriteString("(get-value (")
		for _, cq := range q.Cells {
			fmt.Fprintf(&gb, "%s %s ", cq.Idx, cq.Val)
		}
		gb.WriteString("))\n")
		fmt.Fprintf(&gb, "(echo \"%s\")\n", mk3)
		io.WriteString(s.in, gb.String())
		mout, err := s.readUntil(mk3, 60*time.Second)
		if err != nil {
			r.Secs = time.Since(t0).Seconds()
			return r, false
		}
		vals := parseValueList(mout)
		for i, cq := range q.Cells {
			if 2*i+1 < len(vals) {
				r.Model[fmt.Sprintf("%s@%d", cq.Arr, vals[2*i])] = vals[2*i+1]
			}
		}
	}
	r.Secs = time.Since(t0).Seconds()
	return r, true
}

// parseModel parses ((|a| #x01) (b true) ...) into name -> value (symbols may or may not be quoted).
func parseModel(s string) map[string]uint64 {
	m := map[string]uint64{}
	depth := 0
	start := -1
	for i := 0; i < len(s); i++ {
		switch s[i] {
		case '|':
			// skip quoted symbol
			j := strings.IndexByte(s[i+1:], '|')
			if j < 0 {
				return m
			}
			i += j + 1
		case '(':
			depth++
			if depth == 2 {
				start = i
			}
		case ')':
			if depth == 2 && start >= 0 {
				pair := strings.TrimSpace(s[start+1 : i])
				var name string
				if strings.HasPrefix(pair, "|") {
					k := strings.IndexByte(pair[1:], '|')
					if k >= 0 {
						name = pair[1 : 1+k]
					}
				} else if k := strings.IndexAny(pair, " \n\t"); k > 0 {
					name = pair[:k]
				}
				if name != "" {
					m[name] = lastValue(pair)
				}
				start = -1
			}
			depth--
		}
	}
	return m
}

// SolverPool hands out solver processes to workers.
type SolverPool struct {
	kind string
	free chan *Solver
}

func NewSolverPool(kind string, n int) *SolverPool {
	p := &SolverPool{kind: kind, free: make(chan *Solver, n)}
	for i := 0; i < n; i++ {
		p.free <- nil
	}
	return p
}

func (p *SolverPool) Solve(q *Query, timeoutSec int, wantModel bool) *SolveResult {
	s := <-p.free
	if s == nil {
		var err error
		s, err = startSolver(p.kind)
		if err != nil {
			p.free <- nil
			return &SolveResult{Status: "error", Raw: err.Error()}
		}
	}
	r, alive := s.Solve(q, timeoutSec, wantModel)
	if !alive {
		s.kill()
		s = nil
	}
	p.free <- s
	return r
}

func (p *SolverPool) Close() {
	for {
		select {
		case s := <-p.free:
			if s != nil {
				s.kill()
			}
		default:
			return
		}
	}
}

// parseValueList parses a get-value response ((e1 v1) (e2 v2) ...) positionally, returning v1, v2, ...
func parseValueList(s string) []uint64 {
	var out []uint64
	// tokenise into top-level pairs
	depth := 0
	start := -1
	for i := 0; i < len(s); i++ {
		switch s[i] {
		case '(':
			depth++
			if depth == 2 {
				start = i
			}
		case ')':
			if depth == 2 && start >= 0 {
				pair := s[start+1 : i]
				out = append(out, lastValue(pair))
				start = -1
			}
			depth--
		}
	}
	return out
}

// lastValue extracts the value (last s-expression) of "expr value".
func lastValue(pair string) uint64 {
	pair = strings.TrimSpace(pair)
	var val string
	if strings.HasSuffix(pair, ")") {
		// value like (_ bv5 64)
		d := 0
		i := len(pair) - 1
		for ; i >= 0; i-- {
			if pair[i] == ')' {
				d++
			} else if pair[i] == '(' {
				d--
				if d == 0 {
					break
				}
			}
		}
		val = pair[i:]
	} else {
		i := strings.LastIndexAny(pair, " \n\t")
		val = pair[i+1:]
	}
	switch {
	case val == "true":
		return 1
	case val == "false":
		return 0
	case strings.HasPrefix(val, "#x"):
		u, _ := strconv.ParseUint(val[2:], 16, 64)
		return u
	case strings.HasPrefix(val, "#b"):
		u, _ := strconv.ParseUint(val[2:], 2, 64)
		return u
	case strings.HasPrefix(val, "(_ bv"):
		f := strings.Fields(val[5:])
		u, _ := strconv.ParseUint(f[0], 10, 64)
		return u
	}
	return 0
}
