package main

import (
	"encoding/json"
	"flag"
	"fmt"
	"os"
	"path/filepath"
	"runtime"
	"sort"
	"strconv"
	"strings"
	"sync"
	"time"

	"golang.org/x/tools/go/ssa"
)

var dumpPkgs = []string{"types", "position", "config", "search", "evaluator", "movegen", "transpositiontable",
	"history", "attacks", "moveslice", "uci", "openingbook", "util"}

type ObligResult struct {
	Harness string  `json:"harness"`
	Case    int     `json:"case"`
	ID      string  `json:"id"`
	Kind    string  `json:"kind"`
	Pos     string  `json:"pos"`
	Status  string  `json:"status"` // discharged-by-simplification | unsat | sat | unknown | error
	Secs    float64 `json:"secs"`
	Nodes   int     `json:"nodes"`
	Model   map[string]uint64 `json:"model,omitempty"`
	Replay  string  `json:"replay,omitempty"`
	Verdict string  `json:"verdict,omitempty"`
	q       *Query
}

type JobResult struct {
	Harness  string
	Case     int
	Err      string
	Obls     []*ObligResult
	Encoded  map[string]int
	Stubbed  map[string]int
	Modeled  map[string]int
	Stats    execStats
	ExecSecs float64
	NAssume  int
	NVars    int
	VarSorts map[string]string
	StubNames []string
	AbstractReplay bool
}

type Options struct {
	Prop     string
	Tier     string
	Seed     int
	Only     string
	Timeout  int
	Jobs     int
	Verbose  bool
	Cross    bool
	KeepSMT  string
	Case     int
}

func main() {
	if len(os.Args) < 2 {
		fmt.Fprintln(os.Stderr, "usage: gosmx check|selftest|list ...")
		os.Exit(2)
	}
	if v := os.Getenv("VERIF_DIR"); v != "" {
		verifDir = v
	}
	if v := os.Getenv("VX_REPO"); v != "" { // development aid: check a scratch copy of the repository
		repoDir = v
	}
	switch os.Args[1] {
	case "check":
		os.Exit(cmdCheck(os.Args[2:]))
	case "replay":
		os.Exit(cmdReplay(os.Args[2:]))
	case "selftest":
		os.Exit(cmdSelftest(os.Args[2:]))
	case "list":
		ld, err := LoadRepo(nil)
		if err != nil {
			fmt.Fprintln(os.Stderr, err)
			os.Exit(2)
		}
		var names []string
		for n := range ld.HarnessFn {
			names = append(names, n)
		}
		sort.Strings(names)
		for _, n := range names {
			fmt.Println(n)
		}
	default:
		fmt.Fprintln(os.Stderr, "unknown command")
		os.Exit(2)
	}
}

func cmdCheck(args []string) int {
	fs := flag.NewFlagSet("check", flag.ExitOnError)
	var o Options
	fs.StringVar(&o.Prop, "prop", "", "property id (C01..C20)")
	fs.StringVar(&o.Tier, "tier", "quick", "quick|thorough")
	fs.IntVar(&o.Seed, "seed", 0, "seed for case subset selection")
	fs.StringVar(&o.Only, "only", "", "substring filter on harness names")
	fs.IntVar(&o.Timeout, "timeout", 0, "per-query timeout (s)")
	fs.IntVar(&o.Jobs, "jobs", runtime.NumCPU(), "parallel jobs")
	fs.BoolVar(&o.Verbose, "v", false, "verbose")
	fs.IntVar(&o.Case, "case", -2, "run only this case index of parameterised harnesses")
	fs.BoolVar(&o.Cross, "cross", false, "cross-check every solver query with z3-new and cvc5")
	fs.StringVar(&o.KeepSMT, "keep-smt", "", "directory to keep SMT files of non-trivial queries")
	noEvidence := fs.Bool("no-evidence", false, "do not write the evidence file")
	fs.Parse(args)
	if v := os.Getenv("VERIF_SEED"); v != "" && o.Seed == 0 {
		o.Seed, _ = strconv.Atoi(v)
	}
	if v := os.Getenv("VERIF_TIER"); v != "" && (v == "quick" || v == "thorough") {
		// explicit flag wins; env only when flag left at default
		set := false
		fs.Visit(func(f *flag.Flag) {
			if f.Name == "tier" {
				set = true
			}
		})
		if !set {
			o.Tier = v
		}
	}
	if o.Timeout == 0 {
		if o.Tier == "thorough" {
			o.Timeout = 900
		} else {
			o.Timeout = 300 // slower or loaded machines: a query that needs 40 s here must not become INCONCLUSIVE there
		}
	}
	t0 := time.Now()
	ld, err := LoadRepo(dumpPkgs)
	if err != nil {
		fmt.Fprintf(os.Stderr, "gosmx: load failed: %v\n", err)
		return 2
	}
	loadSecs := time.Since(t0).Seconds()
	run := newRun(ld, &o)
	code := run.execute()
	run.loadSecs = loadSecs
	run.summary(code, time.Since(t0).Seconds())
	if !*noEvidence {
		run.writeEvidence(time.Since(t0).Seconds())
	}
	return code
}

type harnessCase struct {
	fn   *ssa.Function
	name string
	k    int // -1: no parameter
}

type Run struct {
	ld       *Loaded
	o        *Options
	pool     *SolverPool
	pools    map[string]*SolverPool
	results  []*JobResult
	mu       sync.Mutex
	loadSecs float64
	cases    []harnessCase
	totalCases map[string]int
	findings []string
	violations []string
	problems []string
	known    *KnownFindings
	alt      map[string]*SolverPool
	races         int
	portfolioWins int
}

func newRun(ld *Loaded, o *Options) *Run {
	r := &Run{ld: ld, o: o, pool: NewSolverPool(primarySolver(), o.Jobs), totalCases: map[string]int{}}
	if o.Cross {
		r.pools = map[string]*SolverPool{"z3": NewSolverPool("z3", o.Jobs), "cvc5": NewSolverPool("cvc5", o.Jobs)}
	}
	r.known = loadKnownFindings()
	return r
}

// concreteInt runs a parameterless harness helper returning int concretely.
func (r *Run) concreteInt(fn *ssa.Function, args ...int) (int, error) {
	var res int
	err := protect(func() {
		x := NewExec(r.ld)
		var av []Value
		for _, a := range args {
			av = append(av, x.c.Const(64, uint64(a)))
		}
		v, _ := x.callFunc(fn, nil, av, x.c.True, fn.Pos())
		t, ok := v.(*Term)
		if !ok || !t.IsConst() {
			x.fail("%s did not return a concrete int", fn.Name())
		}
		res = int(t.SignedVal())
	})
	return res, err
}

func protect(f func()) (err error) {
	defer func() {
		if e := recover(); e != nil {
			if ef, ok := e.(*ExecFail); ok {
				err = fmt.Errorf("%s", ef.Msg)
				return
			}
			buf := make([]byte, 8192)
			n := runtime.Stack(buf, false)
			err = fmt.Errorf("internal error: %v\n%s", e, buf[:n])
		}
	}()
	f()
	return nil
}

func (r *Run) selectCases() error {
	prefix := "VH_" + r.o.Prop + "_"
	var names []string
	for n := range r.ld.HarnessFn {
		if strings.HasPrefix(n, prefix) && (r.o.Only == "" || strings.Contains(n, r.o.Only)) {
			names = append(names, n)
		}
	}
	sort.Strings(names)
	if len(names) == 0 {
		return fmt.Errorf("no harness functions with prefix %s", prefix)
	}
	for _, n := range names {
		fn := r.ld.HarnessFn[n]
		// thorough-only harnesses: name ends in _T
		if strings.HasSuffix(n, "_T") && r.o.Tier != "thorough" {
			continue
		}
		if len(fn.Params) == 0 {
			r.cases = append(r.cases, harnessCase{fn: fn, name: n, k: -1})
			r.totalCases[n] = 1
			continue
		}
		base := strings.TrimPrefix(n, "VH_")
		nfn := r.lookupHelper(fn, "VN_"+base)
		if nfn == nil {
			return fmt.Errorf("%s has a parameter but no VN_%s", n, base)
		}
		total, err := r.concreteInt(nfn)
		if err != nil {
			return fmt.Errorf("VN_%s: %v", base, err)
		}
		r.totalCases[n] = total
		if r.o.Case >= 0 {
			r.cases = append(r.cases, harnessCase{fn: fn, name: n, k: r.o.Case})
			continue
		}
		want := total
		if r.o.Tier != "thorough" {
			if qfn := r.lookupHelper(fn, "VQ_"+base); qfn != nil {
				q, err := r.concreteInt(qfn)
				if err != nil {
					return err
				}
				if q < want {
					want = q
				}
			}
		}
		if want >= total {
			for k := 0; k < total; k++ {
				r.cases = append(r.cases, harnessCase{fn: fn, name: n, k: k})
			}
		} else if total <= 32 {
			// small case sets: the quick tier runs the first `want` cases (the remaining ones are
			// deliberately thorough-only)
			for k := 0; k < want; k++ {
				r.cases = append(r.cases, harnessCase{fn: fn, name: n, k: k})
			}
		} else {
			// deterministic spread selected by seed; the first VF_ cases (rare kinds) are always included
			seen := map[int]bool{}
			first := 0
			if ffn := r.lookupHelper(fn, "VF_"+base); ffn != nil {
				if f, err := r.concreteInt(ffn); err == nil && f < total {
					first = f
				}
			}
			for k := 0; k < first; k++ {
				seen[k] = true
				r.cases = append(r.cases, harnessCase{fn: fn, name: n, k: k})
			}
			rest := total - first
			step := rest / want
			if step == 0 {
				step = 1
			}
			for i := 0; i < want && i < rest; i++ {
				k := first + (r.o.Seed+i*step)%rest
				for seen[k] {
					k = (k + 1) % total
				}
				seen[k] = true
				r.cases = append(r.cases, harnessCase{fn: fn, name: n, k: k})
			}
		}
	}
	return nil
}

func (r *Run) lookupHelper(fn *ssa.Function, name string) *ssa.Function {
	if fn.Pkg == nil {
		return nil
	}
	if m, ok := fn.Pkg.Members[name].(*ssa.Function); ok {
		return m
	}
	return nil
}

func (r *Run) execute() int {
	if err := r.selectCases(); err != nil {
		fmt.Fprintf(os.Stderr, "gosmx: %v\n", err)
		r.problems = append(r.problems, err.Error())
		return 2
	}
	jobs := make(chan harnessCase)
	var wg sync.WaitGroup
	nw := r.o.Jobs
	if nw > len(r.cases) {
		nw = len(r.cases)
	}
	for w := 0; w < nw; w++ {
		wg.Add(1)
		go func() {
			defer wg.Done()
			for hc := range jobs {
				jr := r.runCase(hc)
				r.mu.Lock()
				r.results = append(r.results, jr)
				r.mu.Unlock()
			}
		}()
	}
	for _, hc := range r.cases {
		jobs <- hc
	}
	close(jobs)
	wg.Wait()
	defer func() {
		r.pool.Close()
		for _, p := range r.pools {
			p.Close()
		}
		for _, p := range r.alt {
			p.Close()
		}
	}()
	sort.Slice(r.results, func(i, j int) bool {
		if r.results[i].Harness != r.results[j].Harness {
			return r.results[i].Harness < r.results[j].Harness
		}
		return r.results[i].Case < r.results[j].Case
	})
	return r.verdict()
}

func (r *Run) runCase(hc harnessCase) *JobResult {
	jr := &JobResult{Harness: hc.name, Case: hc.k}
	t0 := time.Now()
	var x *Exec
	err := protect(func() {
		x = NewExec(r.ld)
		x.tier = r.o.Tier
		if cf := os.Getenv("VX_CONCRETE"); cf != "" {
			var rep struct {
				Model map[string]string `json:"model"`
			}
			if b, err := os.ReadFile(cf); err == nil && json.Unmarshal(b, &rep) == nil {
				x.c.Concrete = map[string]uint64{}
				for k, v := range rep.Model {
					u, _ := strconv.ParseUint(v, 10, 64)
					x.c.Concrete[k] = u
				}
			}
		}
		var args []Value
		if hc.k >= 0 {
			args = append(args, x.c.Const(64, uint64(hc.k)))
		}
		x.callFunc(hc.fn, nil, args, x.c.True, hc.fn.Pos())
	})
	jr.ExecSecs = time.Since(t0).Seconds()
	if err != nil {
		jr.Err = err.Error()
		return jr
	}
	jr.Encoded, jr.Stubbed, jr.Modeled, jr.Stats = x.encoded, x.stubbed, x.modeled, x.stat
	jr.NAssume = len(x.assumes)
	jr.NVars = len(x.c.Vars)
	jr.AbstractReplay = x.opts["replay"] == "abstract"
	for k := range x.everStubbed {
		jr.StubNames = append(jr.StubNames, k)
	}
	sort.Strings(jr.StubNames)
	jr.VarSorts = map[string]string{}
	for _, v := range x.c.Vars {
		jr.VarSorts[v.Name] = v.Sort.String()
	}
	if r.o.Verbose {
		fmt.Fprintf(os.Stderr, "[%s/%d] executed in %.1fs: %d obligations, %d assumptions, %d terms, %d instrs\n",
			hc.name, hc.k, jr.ExecSecs, len(x.obls), len(x.assumes), x.c.n, x.stat.instrs)
	}
	if debugObls {
		h := map[string]int{}
		for _, ob := range x.obls {
			h[ob.Kind+" "+ob.ID]++
		}
		for k, v := range h {
			fmt.Fprintf(os.Stderr, "OBL %6d %s\n", v, k)
		}
	}
	r.solveJob(x, jr)
	return jr
}

type pendingQuery struct {
	res  *ObligResult
	obls []*Oblig
	q    *Query
	rest *Query // assumptions outside the cone of influence (solved separately to complete a model)
	pref *Query // the same query with the harness's soft preferences added (model selection only)
}

func (r *Run) solveJob(x *Exec, jr *JobResult) {
	c := x.c
	vs := newVarSets(c)
	var prefQ func(n int, cond *Term) *Query
	if len(x.prefers) > 0 {
		prefQ = func(n int, cond *Term) *Query {
			as := append([]*Term(nil), x.assumes[:n]...)
			as = append(as, x.prefers...)
			return c.BuildQuery(append(as, cond))
		}
	}
	x.prefQ = prefQ
	mkq := func(n int, cond *Term) (*Query, *Query) {
		rel, rest := vs.sliceAssumptions(x.assumes[:n], cond)
		if len(x.traceEqs) > 0 { // VX_TRACE: intermediate values become part of the model
			rel = append(append([]*Term(nil), x.assumes[:n]...), x.traceEqs...)
			rest = nil
		}
		q := c.BuildQuery(append(rel, cond))
		var rq *Query
		if len(rest) > 0 {
			rq = c.BuildQuery(rest)
		}
		return q, rq
	}
	var pend []*pendingQuery
	// trivial ones first; batch panic obligations by assumption prefix
	batches := map[int][]*Oblig{}
	var batchKeys []int
	for _, ob := range x.obls {
		if ob.Kind != "reach" && ob.Cond.IsFalse() {
			jr.Obls = append(jr.Obls, &ObligResult{Harness: jr.Harness, Case: jr.Case, ID: ob.ID, Kind: ob.Kind, Pos: ob.Pos, Status: "discharged-by-simplification"})
			continue
		}
		if ob.Kind == "panic" || ob.Kind == "append" || ob.Kind == "bassert" {
			if _, ok := batches[ob.NAssume]; !ok {
				batchKeys = append(batchKeys, ob.NAssume)
			}
			batches[ob.NAssume] = append(batches[ob.NAssume], ob)
			continue
		}
		q, rq := mkq(ob.NAssume, ob.Cond)
		pqn := &pendingQuery{obls: []*Oblig{ob}, q: q, rest: rq,
			res: &ObligResult{Harness: jr.Harness, Case: jr.Case, ID: ob.ID, Kind: ob.Kind, Pos: ob.Pos}}
		if prefQ != nil && ob.Kind == "assert" {
			pqn.pref = prefQ(ob.NAssume, ob.Cond)
		}
		pend = append(pend, pqn)
	}
	sort.Ints(batchKeys)
	const maxBatch = 96
	for _, k := range batchKeys {
		all := batches[k]
		for lo := 0; lo < len(all); lo += maxBatch {
			hi := lo + maxBatch
			if hi > len(all) {
				hi = len(all)
			}
			obs := all[lo:hi]
			any := c.False
			for _, ob := range obs {
				any = c.Or(any, ob.Cond)
			}
			q, rq := mkq(k, any)
			id := obs[0].ID
			if len(obs) > 1 {
				id = fmt.Sprintf("batch(%d run-time checks: %s … %s)", len(obs), obs[0].ID, obs[len(obs)-1].ID)
			}
			pend = append(pend, &pendingQuery{obls: obs, q: q, rest: rq,
				res: &ObligResult{Harness: jr.Harness, Case: jr.Case, ID: id, Kind: obs[0].Kind, Pos: obs[0].Pos}})
		}
	}
	// solve concurrently; a batch that is satisfiable or inconclusive is split (halves, then singles)
	var wg sync.WaitGroup
	round := pend
	for depth := 0; len(round) > 0 && depth < 12; depth++ {
		for _, pq := range round {
			wg.Add(1)
			go func(pq *pendingQuery) {
				defer wg.Done()
				r.solveOne(pq, jr)
			}(pq)
		}
		wg.Wait()
		var next []*pendingQuery
		for _, pq := range round {
			st := pq.res.Status
			if len(pq.obls) > 1 && st != "unsat" {
				// split: sat -> singles; unknown/error -> halves
				var parts [][]*Oblig
				if st == "sat" {
					for _, ob := range pq.obls {
						parts = append(parts, []*Oblig{ob})
					}
				} else {
					h := len(pq.obls) / 2
					parts = append(parts, pq.obls[:h], pq.obls[h:])
				}
				for _, part := range parts {
					any := c.False
					for _, ob := range part {
						any = c.Or(any, ob.Cond)
					}
					q, rq := mkq(part[0].NAssume, any)
					id := part[0].ID
					if len(part) > 1 {
						id = fmt.Sprintf("batch(%d run-time checks: %s … %s)", len(part), part[0].ID, part[len(part)-1].ID)
					}
					next = append(next, &pendingQuery{obls: part, q: q, rest: rq,
						res: &ObligResult{Harness: jr.Harness, Case: jr.Case, ID: id, Kind: part[0].Kind, Pos: part[0].Pos}})
				}
				continue
			}
			if len(pq.obls) > 1 {
				for _, ob := range pq.obls {
					jr.Obls = append(jr.Obls, &ObligResult{Harness: jr.Harness, Case: jr.Case, ID: ob.ID, Kind: ob.Kind, Pos: ob.Pos,
						Status: st, Secs: pq.res.Secs / float64(len(pq.obls)), Nodes: pq.res.Nodes})
				}
				continue
			}
			jr.Obls = append(jr.Obls, pq.res)
		}
		round = next
	}
}

var smtFileN int
var smtFileMu sync.Mutex

func (r *Run) solveOne(pq *pendingQuery, jr *JobResult) {
	if r.o.KeepSMT != "" {
		os.MkdirAll(r.o.KeepSMT, 0o755)
		os.WriteFile(filepath.Join(r.o.KeepSMT, fmt.Sprintf("pre_%s_%d_%p.smt2", jr.Harness, jr.Case, pq)),
			[]byte("; "+pq.res.ID+"\n"+pq.q.Text+"(check-sat)\n"), 0o644)
	}
	res := r.solvePortfolio(pq.q)
	pq.res.Status = res.Status
	pq.res.Secs = res.Secs
	pq.res.Nodes = pq.q.Nodes
	pq.res.q = pq.q
	if res.Status == "sat" && pq.pref != nil && pq.res.Kind != "reach" {
		if pr := r.pool.Solve(pq.pref, r.o.Timeout, true); pr.Status == "sat" {
			res = pr
			pq.rest = nil // the preference query carries all assumptions
		}
	}
	if res.Status == "sat" {
		pq.res.Model = res.Model
		if pq.rest != nil && pq.res.Kind != "reach" {
			rr := r.pool.Solve(pq.rest, r.o.Timeout, true)
			if rr.Status == "sat" {
				for k, v := range rr.Model {
					if _, dup := pq.res.Model[k]; !dup {
						pq.res.Model[k] = v
					}
				}
			} else {
				pq.res.Status = "unknown"
				pq.res.Verdict = "counterexample found but the assumptions outside its cone of influence could not be satisfied (" + rr.Status + ")"
			}
		}
	}
	if res.Status == "error" || res.Status == "unknown" {
		pq.res.Verdict = strings.TrimSpace(firstLine(res.Raw))
	}
	if r.o.KeepSMT != "" {
		smtFileMu.Lock()
		smtFileN++
		n := smtFileN
		smtFileMu.Unlock()
		os.MkdirAll(r.o.KeepSMT, 0o755)
		os.WriteFile(filepath.Join(r.o.KeepSMT, fmt.Sprintf("%s_%d_%d.smt2", jr.Harness, jr.Case, n)),
			[]byte("; "+pq.res.ID+" => "+res.Status+"\n"+pq.q.Text+"(check-sat)\n"), 0o644)
	}
	if r.o.Cross && (res.Status == "sat" || res.Status == "unsat") {
		for name, p := range r.pools {
			o := p.Solve(pq.q, r.o.Timeout, false)
			if (o.Status == "sat" || o.Status == "unsat") && o.Status != res.Status {
				pq.res.Status = "error"
				pq.res.Verdict = fmt.Sprintf("solver disagreement: z3=%s %s=%s", res.Status, name, o.Status)
			}
			if o.Status == "error" {
				pq.res.Verdict += fmt.Sprintf(" [%s: %s]", name, strings.TrimSpace(firstLine(o.Raw)))
			}
		}
	}
	if r.o.Verbose {
		fmt.Fprintf(os.Stderr, "  [%s/%d] %-8s %-60s %6.2fs %d nodes\n", jr.Harness, jr.Case, pq.res.Status, trunc(pq.res.ID, 60), res.Secs, pq.q.Nodes)
	}
}

func trunc(s string, n int) string {
	if len(s) > n {
		return s[:n]
	}
	return s
}

func firstLine(s string) string {
	s = strings.TrimSpace(s)
	if i := strings.Index(s, "\n"); i >= 0 {
		return s[:i]
	}
	return s
}

// verdict classifies results, replays counterexamples, prints the protocol lines.
func (r *Run) verdict() int {
	code := 0
	bump := func(c int) {
		if c == 1 || (c == 2 && code == 0) {
			if code != 1 {
				code = c
			}
		}
	}
	reachOK := map[string]bool{}
	reachBad := map[string]string{}
	defer func() {}()
	for _, jr := range r.results {
		if jr.Err != "" {
			msg := fmt.Sprintf("ENCODER-ERROR harness=%s case=%d: %s", jr.Harness, jr.Case, jr.Err)
			fmt.Println(msg)
			r.problems = append(r.problems, msg)
			bump(2)
			continue
		}
		for _, ob := range jr.Obls {
			switch ob.Kind {
			case "reach":
				key := jr.Harness + "|" + ob.ID
				switch ob.Status {
				case "sat":
					ob.Verdict = "reachable (vacuity witness ok)"
					reachOK[key] = true
				case "unsat", "discharged-by-simplification":
					ob.Verdict = "unreachable in this case"
					if !reachOK[key] {
						reachBad[key] = fmt.Sprintf("VACUOUS harness=%s witness=%s is unreachable in every explored case", jr.Harness, ob.ID)
					}
				default:
					msg := fmt.Sprintf("INCONCLUSIVE harness=%s case=%d witness=%s status=%s %s", jr.Harness, jr.Case, ob.ID, ob.Status, ob.Verdict)
					fmt.Println(msg)
					r.problems = append(r.problems, msg)
					bump(2)
				}
			case "unwind", "append":
				switch ob.Status {
				case "unsat", "discharged-by-simplification":
				case "sat":
					msg := fmt.Sprintf("BOUND-TOO-SMALL harness=%s case=%d %s", jr.Harness, jr.Case, ob.ID)
					fmt.Println(msg)
					r.problems = append(r.problems, msg)
					bump(2)
				default:
					msg := fmt.Sprintf("INCONCLUSIVE harness=%s case=%d oblig=%s status=%s %s", jr.Harness, jr.Case, ob.ID, ob.Status, ob.Verdict)
					fmt.Println(msg)
					r.problems = append(r.problems, msg)
					bump(2)
				}
			default: // assert, panic
				switch ob.Status {
				case "unsat", "discharged-by-simplification":
				case "sat":
					bump(r.handleCounterexample(jr, ob))
				default:
					msg := fmt.Sprintf("INCONCLUSIVE harness=%s case=%d oblig=%s status=%s %s", jr.Harness, jr.Case, ob.ID, ob.Status, ob.Verdict)
					fmt.Println(msg)
					r.problems = append(r.problems, msg)
					bump(2)
				}
			}
		}
	}
	for key, msg := range reachBad {
		if !reachOK[key] {
			fmt.Println(msg)
			r.problems = append(r.problems, msg)
			bump(2)
		}
	}
	return code
}

// ---------- evidence ----------

func (r *Run) writeEvidence(wall float64) {
	type sample struct {
		Harness string `json:"harness"`
		Case    int    `json:"case"`
		Oblig   string `json:"obligation"`
		Kind    string `json:"kind"`
		Status  string `json:"status"`
		Pos     string `json:"source"`
		Secs    float64 `json:"solver_s"`
		Nodes   int    `json:"smt_nodes"`
	}
	total, trivial, unsat, sat, inconcl, reachOK := 0, 0, 0, 0, 0, 0
	solverSecs := 0.0
	encoded := map[string]bool{}
	stubbed := map[string]bool{}
	modeled := map[string]bool{}
	var samples []sample
	distinct := map[string]bool{}
	harnesses := map[string]int{}
	instrs := 0
	bitscan := 0
	execSecs := 0.0
	for _, jr := range r.results {
		harnesses[jr.Harness]++
		instrs += jr.Stats.instrs
		bitscan += jr.Stats.bitScanLoops
		execSecs += jr.ExecSecs
		for k := range jr.Encoded {
			encoded[k] = true
		}
		for k := range jr.Stubbed {
			stubbed[k] = true
		}
		for k := range jr.Modeled {
			modeled[k] = true
		}
		for _, ob := range jr.Obls {
			total++
			solverSecs += ob.Secs
			switch ob.Status {
			case "discharged-by-simplification":
				trivial++
			case "unsat":
				unsat++
				distinct[fmt.Sprintf("%s/%d/%s", jr.Harness, jr.Case, ob.ID)] = true
			case "sat":
				if ob.Kind == "reach" {
					reachOK++
				} else {
					sat++
				}
				distinct[fmt.Sprintf("%s/%d/%s", jr.Harness, jr.Case, ob.ID)] = true
			default:
				inconcl++
			}
			if ob.Status != "discharged-by-simplification" && len(samples) < 12 && (len(samples) == 0 || samples[len(samples)-1].Oblig != ob.ID) {
				samples = append(samples, sample{jr.Harness, jr.Case, ob.ID, ob.Kind, ob.Status, ob.Pos, ob.Secs, ob.Nodes})
			}
		}
	}
	if len(samples) == 0 {
		for _, jr := range r.results {
			for _, ob := range jr.Obls {
				if len(samples) < 5 {
					samples = append(samples, sample{jr.Harness, jr.Case, ob.ID, ob.Kind, ob.Status, ob.Pos, ob.Secs, ob.Nodes})
				}
			}
		}
	}
	keys := func(m map[string]bool) []string {
		var out []string
		for k := range m {
			out = append(out, k)
		}
		sort.Strings(out)
		return out
	}
	caseCov := map[string]string{}
	for h, n := range harnesses {
		caseCov[h] = fmt.Sprintf("%d of %d case-splits", n, r.totalCases[h])
	}
	discharged := trivial + unsat + reachOK
	ev := map[string]interface{}{
		"property_id": r.o.Prop,
		"tier":        r.o.Tier,
		"seed":        r.o.Seed,
		"level":       "model_checking",
		"wall_s":      wall,
		"violations":  len(r.violations),
		"coverage": map[string]interface{}{
			"evaluations":         total,
			"distinct_nontrivial": len(distinct),
			"rule": "one evaluation = one proof obligation (harness assertion, implicit Go run-time check, unwinding assertion or vacuity witness) produced by symbolic execution of the real SSA; distinct_nontrivial counts obligations that were NOT closed by the encoder's own constant folding and went to the SMT solver (distinct by harness/case/obligation id)",
			"samples":             samples,
			"obligations":         total,
			"discharged":          discharged,
			"discharged_by_simplification": trivial,
			"discharged_by_solver_unsat":   unsat,
			"vacuity_witnesses_sat":        reachOK,
			"counterexamples":              sat,
			"inconclusive":                 inconcl,
			"solver_time_s":                solverSecs,
			"symbolic_execution_time_s":    execSecs,
			"load_and_table_dump_time_s":   r.loadSecs,
			"ssa_instructions_executed":    instrs,
			"bit_scan_loops_rewritten":     bitscan,
			"functions_encoded":            keys(encoded),
			"stubs_and_contracts":          keys(stubbed),
			"environment_models":           keys(modeled),
			"harness_cases":                caseCov,
			"solvers":                      solverVersions(r.o.Cross),
			"per_query_timeout_s":          r.o.Timeout,
			"source_hash":                  r.ld.SrcHash,
			"known_findings_reported":      r.findings,
			"violations_reported":          r.violations,
			"problems":                     r.problems,
			"exhaustive":                   false,
			"explanation":                  "bounded symbolic model checking: SSA of /repo (rebuilt this run) executed over symbolic inputs, obligations decided by z3; bounds are in MANIFEST level_note and DESIGN.md",
		},
		"assumptions": r.assumptionList(keys(stubbed), keys(modeled)),
	}
	b, _ := json.MarshalIndent(ev, "", " ")
	os.MkdirAll(filepath.Join(verifDir, "evidence"), 0o755)
	os.WriteFile(filepath.Join(verifDir, "evidence", r.o.Prop+".json"), b, 0o644)
}

func (r *Run) assumptionList(stubs, models []string) []string {
	out := []string{
		"go/ssa (x/tools v0.29.0) faithfully represents the Go source; gosmx's SSA->SMT translation (trusted, exercised by concrete self-tests and native replay of every counterexample)",
		"z3 4.8.12 verdicts (cross-checked against z3 5.1.0 and cvc5 1.0.3 with --cross)",
		"package-level tables are the values produced by the real init() functions (dumped natively this run)",
		"default build (tag debug off => assert.DEBUG=false)",
	}
	for _, s := range stubs {
		out = append(out, "stub/contract: "+s)
	}
	for _, s := range models {
		out = append(out, "environment model: "+s)
	}
	out = append(out, harnessAssumptions(r.o.Prop)...)
	return out
}

var solverVerCache map[string]string

func solverVersions(cross bool) map[string]string {
	return map[string]string{"z3": "4.8.12 (/usr/bin/z3, deciding)", "z3-new": "5.1.0 (cross-check)", "cvc5": "1.0.x (cross-check)"}
}

func (r *Run) summary(code int, wall float64) {
	total, triv, unsat, sat, other := 0, 0, 0, 0, 0
	for _, jr := range r.results {
		for _, ob := range jr.Obls {
			total++
			switch ob.Status {
			case "discharged-by-simplification":
				triv++
			case "unsat":
				unsat++
			case "sat":
				sat++
			default:
				other++
			}
		}
	}
	fmt.Printf("gosmx: property=%s tier=%s cases=%d obligations=%d (folded=%d unsat=%d sat=%d inconclusive=%d) known-findings=%d violations=%d problems=%d wall=%.1fs exit=%d\n",
		r.o.Prop, r.o.Tier, len(r.results), total, triv, unsat, sat, other, len(r.findings), len(r.violations), len(r.problems), wall, code)
}

func primarySolver() string {
	if v := os.Getenv("VX_SOLVER"); v != "" {
		return v
	}
	return "z3new"
}

func init() {
	if os.Getenv("VX_DEBUG_OBLS") != "" {
		debugObls = true
	}
}

var debugObls bool

// solvePortfolio: the primary solver decides; floating-point queries and queries the primary leaves
// undecided go to all three solvers concurrently and the first definite verdict wins.
func (r *Run) tryRace() bool {
	r.mu.Lock()
	defer r.mu.Unlock()
	lim := r.o.Jobs / 4
	if lim < 1 {
		lim = 1
	}
	if r.races >= lim {
		return false
	}
	r.races++
	return true
}

func (r *Run) raceDone() {
	r.mu.Lock()
	r.races--
	r.mu.Unlock()
}

func (r *Run) solvePortfolio(q *Query) *SolveResult {
	r.mu.Lock()
	if r.alt == nil {
		r.alt = map[string]*SolverPool{}
		for _, k := range []string{"z3", "z3new", "cvc5", "cvc5int"} {
			if k != primarySolver() {
				r.alt[k] = NewSolverPool(k, r.o.Jobs)
			}
		}
		r.alt[primarySolver()] = r.pool
	}
	r.mu.Unlock()
	ch := make(chan *SolveResult, 5)
	launch := func(k string) {
		go func() {
			res := r.alt[k].Solve(q, r.o.Timeout, true)
			res.Raw = k + ": " + res.Raw
			ch <- res
		}()
	}
	definite := func(res *SolveResult) bool { return res.Status == "sat" || res.Status == "unsat" }
	pending := 0
	var others []string
	if q.HasFP {
		for _, k := range []string{"cvc5", "z3", "z3new"} {
			launch(k)
			pending++
		}
	} else {
		launch(primarySolver())
		pending++
		for _, k := range []string{"cvc5int", "cvc5", "z3"} {
			if k != primarySolver() {
				others = append(others, k)
			}
		}
	}
	grace := time.After(60 * time.Second)
	var last *SolveResult
	for pending > 0 {
		select {
		case res := <-ch:
			pending--
			if definite(res) || (res.Status == "error" && others != nil && pending == 0 && len(others) == 3) {
				if !strings.HasPrefix(res.Raw, primarySolver()+":") {
					r.mu.Lock()
					r.portfolioWins++
					r.mu.Unlock()
				}
				return res
			}
			last = res
			if pending == 0 && len(others) > 0 {
				for _, k := range others {
					launch(k)
					pending++
				}
				others = nil
			}
		case <-grace:
			// the primary is taking long: race the other solvers against it - but only a few races at
			// a time (each adds three solver processes; an overloaded machine makes every query slow and
			// racing all of them makes it slower still)
			if len(others) == 0 {
				break
			}
			if !r.tryRace() {
				grace = time.After(30 * time.Second)
				break
			}
			var wg sync.WaitGroup
			for _, k := range others {
				k := k
				wg.Add(1)
				pending++
				go func() {
					defer wg.Done()
					res := r.alt[k].Solve(q, r.o.Timeout, true)
					res.Raw = k + ": " + res.Raw
					ch <- res
				}()
			}
			go func() { wg.Wait(); r.raceDone() }()
			others = nil
		}
	}
	if last == nil {
		last = &SolveResult{}
	}
	if last.Status != "error" {
		last.Status = "unknown"
	}
	return last
}
