package main

// BMC-style symbolic executor over go/ssa: one pass over the loop-unrolled CFG, block guards,
// guarded writes into a global store, calls inlined.

import (
	"fmt"
	"os"
	"go/constant"
	"go/token"
	"go/types"
	"math"
	"strings"

	"golang.org/x/tools/go/ssa"
)

type Oblig struct {
	ID      string
	Kind    string // assert | panic | unwind | reach | append
	Cond    *Term  // violation condition (for reach: the reachability condition, expected sat)
	NAssume int
	Pos     string
}

type execStats struct {
	instrs, calls, loopsUnrolled, bitScanLoops, bigConstMux, mergedChecks int
}

type ExecFail struct{ Msg string }

type Exec struct {
	c       *Ctx
	prog    *ssa.Program
	ld      *Loaded
	globals map[*ssa.Global]*Object
	rxGlobals map[*ssa.Global]string
	nobj    int
	assumes []*Term
	obls    []*Oblig
	stubs   map[string]*FuncV
	stubbed map[string]int // evidence: stub name -> call count
	modeled map[string]int // evidence: environment models used
	encoded map[string]int // evidence: functions symbolically executed
	unwind  int
	depth   int
	stack   []string
	stat    execStats
	nondet  map[string]int
	ghost   map[string]Value
	trace   bool
	maxInstr int
	curPos  token.Pos
	opts    map[string]string
	goPolicy string
	spawned []*spawnedGo
	bitScanStack []bitScanCtx
	rtIndex map[rtKey]*rtEntry
	killPath *Term
	prefers []*Term
	traceEqs []*Term
	nprint   int
	conjMemo map[int32]map[int32]bool
	everStubbed map[string]bool
	nestedStubs map[string]*FuncV
	active      map[string]int
	prefQ   func(n int, cond *Term) *Query
	tier string
	backings map[string]*Object
	panicAsAssume bool // treat explicit panics as path end without obligation (per harness option)
}

type spawnedGo struct {
	fn   *FuncV
	args []Value
	g    *Term
}

func (x *Exec) fail(f string, a ...interface{}) {
	msg := fmt.Sprintf(f, a...)
	pos := ""
	if x.curPos.IsValid() {
		pos = x.prog.Fset.Position(x.curPos).String()
	}
	panic(&ExecFail{Msg: fmt.Sprintf("%s [at %s; stack %s]", msg, pos, strings.Join(x.stack, " > "))})
}

type Edge struct {
	predPos int
	g       *Term
	phi     []Value
	snap    map[ssa.Value]Value
}

type deferred struct {
	g    *Term
	fn   Value
	args []Value
	call *ssa.CallCommon
}

type Frame struct {
	fi      *FnInfo
	env     []Value
	pending [][]Edge
	ret     Value
	retG    *Term
	died    *Term
	defers  []deferred
	cur     *Term // current guard inside the block being executed
	forceIf  *ssa.If // bit-scan loops: the header's loop condition is known in each virtual iteration
	forceVal bool
}

func NewExec(ld *Loaded) *Exec {
	return &Exec{
		c: NewCtx(), prog: ld.Prog, ld: ld,
		globals: map[*ssa.Global]*Object{}, stubs: map[string]*FuncV{},
		stubbed: map[string]int{}, modeled: map[string]int{}, encoded: map[string]int{},
		unwind: 70, nondet: map[string]int{}, ghost: map[string]Value{}, maxInstr: 50_000_000,
		opts: map[string]string{},
	}
}

func (x *Exec) posStr(p token.Pos) string {
	if !p.IsValid() {
		return "?"
	}
	ps := x.prog.Fset.Position(p)
	f := ps.Filename
	if i := strings.Index(f, "/internal/"); i >= 0 {
		f = f[i+1:]
	}
	return fmt.Sprintf("%s:%d", f, ps.Line)
}

func (x *Exec) addOblig(kind, id string, cond *Term, pos token.Pos) {
	if cond.IsFalse() && kind != "reach" {
		x.obls = append(x.obls, &Oblig{ID: id, Kind: kind, Cond: cond, NAssume: len(x.assumes), Pos: x.posStr(pos)})
		return
	}
	x.obls = append(x.obls, &Oblig{ID: id, Kind: kind, Cond: cond, NAssume: len(x.assumes), Pos: x.posStr(pos)})
}

// runtimeCheck records a panic obligation: bad is the failure condition under guard g.
func (x *Exec) runtimeCheck(what string, g, bad *Term, pos token.Pos) {
	if bad.IsTrue() {
		x.killPath = g
	}
	cnd := x.c.And(g, bad)
	if cnd.IsFalse() {
		x.stat.instrs++ // cheap counter; trivially discharged checks are not recorded individually
		return
	}
	// the same check (same source position, same failure condition) reached under several guards is
	// one obligation: (g1 ∨ g2 ∨ …) ∧ bad
	id := what + "@" + x.posStr(pos)
	key := rtKey{id: id, bad: bad.ID, n: len(x.assumes)}
	if x.rtIndex == nil {
		x.rtIndex = map[rtKey]*rtEntry{}
	}
	if e, ok := x.rtIndex[key]; ok {
		e.g = x.c.Or(e.g, g)
		e.ob.Cond = x.c.And(e.g, bad)
		x.stat.mergedChecks++
		return
	}
	x.addOblig("panic", id, cnd, pos)
	x.rtIndex[key] = &rtEntry{ob: x.obls[len(x.obls)-1], g: g}
}

type rtKey struct {
	id  string
	bad int32
	n   int
}

type rtEntry struct {
	ob *Oblig
	g  *Term
}

// ---------------- function execution ----------------

func (x *Exec) callFunc(fn *ssa.Function, bind []Value, args []Value, g *Term, site token.Pos) (Value, *Term) {
	if g.IsFalse() {
		return x.zeroResult(fn.Signature), x.c.False
	}
	name := fn.String()
	if st, ok := x.stubs[name]; ok {
		x.stubbed[name]++
		return x.callFunc(st.Fn, st.Bind, args, g, site)
	}
	if st, ok := x.nestedStubs[name]; ok {
		if x.active[name] > 0 {
			x.stubbed[name+" (recursive calls: contract)"]++
			return x.callFunc(st.Fn, st.Bind, args, g, site)
		}
		x.active[name]++
		defer func() { x.active[name]-- }()
	}
	if r, died, ok := x.intrinsic(fn, name, args, g, site); ok {
		return r, died
	}
	if len(fn.Blocks) == 0 {
		x.fail("call to function without body and without model: %s", name)
	}
	x.depth++
	if x.depth > 80 {
		x.fail("call depth exceeded at %s", name)
	}
	x.stack = append(x.stack, fn.Name())
	x.encoded[name]++
	x.stat.calls++
	fi := getFnInfo(fn)
	fr := &Frame{fi: fi, env: make([]Value, fi.NVals), pending: make([][]Edge, len(fn.Blocks)), retG: x.c.False, died: x.c.False}
	for i, p := range fn.Params {
		if i >= len(args) {
			x.fail("too few args calling %s", name)
		}
		fr.env[fi.ValIdx[p]] = args[i]
	}
	for i, fv := range fn.FreeVars {
		fr.env[fi.ValIdx[fv]] = bind[i]
	}
	fr.pending[0] = []Edge{{predPos: -1, g: g}}
	x.runRegion(fr, nil)
	x.depth--
	x.stack = x.stack[:len(x.stack)-1]
	if fr.ret == nil {
		fr.ret = x.zeroResult(fn.Signature)
	}
	return fr.ret, fr.died
}

func (x *Exec) zeroResult(sig *types.Signature) Value {
	res := sig.Results()
	switch res.Len() {
	case 0:
		return nil
	case 1:
		return x.zero(res.At(0).Type())
	}
	t := &TupleV{}
	for i := 0; i < res.Len(); i++ {
		t.E = append(t.E, x.zero(res.At(i).Type()))
	}
	return t
}

// runRegion executes the blocks of loop l (one iteration; l == nil: the whole function body) in RPO.
func (x *Exec) runRegion(fr *Frame, l *Loop) {
	fi := fr.fi
	for _, b := range fi.RPO {
		if l != nil && !l.Blocks[b.Index] {
			continue
		}
		inner := fi.LoopOf[b.Index]
		if inner != l {
			// block belongs to a nested loop: run that loop when we hit its header
			// find the outermost loop below l that contains b
			top := inner
			for top.Parent != l {
				top = top.Parent
				if top == nil {
					x.fail("loop nesting confusion in %s", fi.Fn.Name())
				}
			}
			if top.Header == b {
				x.runLoop(fr, top)
			}
			continue
		}
		x.runBlock(fr, b)
	}
}

func (x *Exec) takePending(fr *Frame, b *ssa.BasicBlock) []Edge {
	e := fr.pending[b.Index]
	fr.pending[b.Index] = nil
	return e
}

// orGuards computes the disjunction of edge guards, recombining Shannon splits
// (x∧c) ∨ (x∧¬c) = x among any pair (not only adjacent ones), so that a join after an if/else-if
// chain or a switch gets back the guard of the branching block.
func (x *Exec) orGuards(edges []Edge) *Term {
	c := x.c
	if len(edges) == 1 {
		return edges[0].g
	}
	if os.Getenv("VX_NO_ORG") != "" {
		g := c.False
		for _, e := range edges {
			g = c.Or(g, e.g)
		}
		return g
	}
	gs := make([]*Term, 0, len(edges))
	for _, e := range edges {
		if e.g.IsTrue() {
			return c.True
		}
		if !e.g.IsFalse() {
			gs = append(gs, e.g)
		}
	}
	split := func(g *Term) (a, b *Term, ok bool) {
		if g.Op == OAnd {
			return g.A[0], g.A[1], true
		}
		return nil, nil, false
	}
	for changed := true; changed && len(gs) > 1; {
		changed = false
	outer:
		for i := 0; i < len(gs); i++ {
			a0, a1, ok := split(gs[i])
			if !ok {
				continue
			}
			for j := i + 1; j < len(gs); j++ {
				b0, b1, ok := split(gs[j])
				if !ok {
					continue
				}
				var m *Term
				switch {
				case a0 == b0 && c.Not(a1) == b1:
					m = a0
				case a0 == b1 && c.Not(a1) == b0:
					m = a0
				case a1 == b0 && c.Not(a0) == b1:
					m = a1
				case a1 == b1 && c.Not(a0) == b0:
					m = a1
				}
				if m != nil {
					gs[i] = m
					gs = append(gs[:j], gs[j+1:]...)
					changed = true
					break outer
				}
			}
		}
	}
	g := c.False
	for _, t := range gs {
		g = c.Or(g, t)
	}
	return g
}

const hardLoopCap = 1 << 16

func (x *Exec) runLoop(fr *Frame, l *Loop) {
	if l.BitScan {
		x.runBitScanLoop(fr, l)
		return
	}
	h := l.Header
	symIters := 0
	var lastG *Term
	for iter := 0; ; iter++ {
		in := fr.pending[h.Index]
		g := x.c.False
		if len(in) > 0 {
			g = x.orGuards(in)
		}
		if g.IsFalse() {
			fr.pending[h.Index] = nil
			break
		}
		if lastG != nil && g != lastG {
			symIters++
		}
		lastG = g
		if symIters > x.unwind || iter >= hardLoopCap {
			fr.pending[h.Index] = nil
			x.addOblig("unwind", fmt.Sprintf("unwind@%s(%d)", x.posStr(firstPos(h)), x.unwind), g, firstPos(h))
			break
		}
		x.stat.loopsUnrolled++
		// run one iteration: header as a plain block, then the rest of the body
		x.runBlock(fr, h)
		for _, b := range fr.fi.RPO {
			if b == h || !l.Blocks[b.Index] {
				continue
			}
			inner := fr.fi.LoopOf[b.Index]
			if inner != l {
				top := inner
				for top.Parent != l {
					top = top.Parent
				}
				if top.Header == b {
					x.runLoop(fr, top)
				}
				continue
			}
			x.runBlock(fr, b)
		}
	}
}

func firstPos(b *ssa.BasicBlock) token.Pos {
	for _, in := range b.Instrs {
		if in.Pos().IsValid() {
			return in.Pos()
		}
	}
	if b.Parent() != nil {
		return b.Parent().Pos()
	}
	return token.NoPos
}

// runBitScanLoop executes `for *addr != 0 { sq := addr.PopLsb(); body }` as 64 guarded iterations
// with concrete sq. Soundness rests on lemma PL (PopLsb returns the lowest set bit and clears
// exactly it), which is itself an obligation of C18.
func (x *Exec) runBitScanLoop(fr *Frame, l *Loop) {
	h := l.Header
	if len(fr.pending[h.Index]) == 0 {
		return
	}
	x.stat.bitScanLoops++
	addr := x.eval(fr, l.BitScanAddr)
	for j := 0; j <= 64; j++ {
		in := fr.pending[h.Index]
		g := x.c.False
		if len(in) > 0 {
			g = x.orGuards(in)
		}
		if g.IsFalse() {
			fr.pending[h.Index] = nil
			return
		}
		if j == 64 {
			// all bits consumed: run the header once more so that the exit edge is taken
			cur := x.load(addr).(*Term)
			if !cur.IsConst() {
				// by construction cur has all 64 bits cleared under g; make that explicit
				x.store(addr, x.c.Const(64, 0), g)
			}
			fr.forceIf, fr.forceVal = h.Instrs[len(h.Instrs)-1].(*ssa.If), false
			x.runBlock(fr, h)
			fr.forceIf = nil
			if len(fr.pending[h.Index]) != 0 {
				x.fail("bit-scan loop did not terminate")
			}
			return
		}
		cur := x.load(addr).(*Term)
		bit := x.c.Eq(x.c.Extract(cur, j, j), x.c.Const(1, 1))
		if bit.IsFalse() {
			continue // nothing happens in virtual iteration j; pending edges stay
		}
		// merge the incoming edges into one (guard g, phi values merged), then split it: with bit j set
		// it enters the body, otherwise it skips to j+1
		edges := x.takePending(fr, h)
		me := x.mergeEdges(edges, g)
		var enter, skip []Edge
		ge := x.c.And(g, bit)
		gs := x.c.And(g, x.c.Not(bit))
		if !ge.IsFalse() {
			enter = append(enter, Edge{predPos: me.predPos, g: ge, phi: me.phi, snap: me.snap})
		}
		if !gs.IsFalse() {
			skip = append(skip, Edge{predPos: me.predPos, g: gs, phi: me.phi, snap: me.snap})
		}
		if len(enter) > 0 {
			fr.pending[h.Index] = enter
			saved := x.opts["bitscan.sq"]
			x.bitScanStack = append(x.bitScanStack, bitScanCtx{addr: addr, sq: j})
			fr.forceIf, fr.forceVal = h.Instrs[len(h.Instrs)-1].(*ssa.If), true
			x.runBlock(fr, h)
			fr.forceIf = nil
			for _, b := range fr.fi.RPO {
				if b == h || !l.Blocks[b.Index] {
					continue
				}
				inner := fr.fi.LoopOf[b.Index]
				if inner != l {
					top := inner
					for top.Parent != l {
						top = top.Parent
					}
					if top.Header == b {
						x.runLoop(fr, top)
					}
					continue
				}
				x.runBlock(fr, b)
			}
			x.bitScanStack = x.bitScanStack[:len(x.bitScanStack)-1]
			_ = saved
		}
		// skip edges carry the phi values of this iteration's entry
		fr.pending[h.Index] = append(fr.pending[h.Index], skip...)
	}
}

// mergeEdges folds several incoming edges of a block into one edge with guard g.
func (x *Exec) mergeEdges(edges []Edge, g *Term) Edge {
	if len(edges) == 1 {
		e := edges[0]
		e.g = g
		return e
	}
	me := Edge{predPos: edges[0].predPos, g: g}
	nphi := len(edges[0].phi)
	for pi := 0; pi < nphi; pi++ {
		var res Value
		for i := len(edges) - 1; i >= 0; i-- {
			v := edges[i].phi[pi]
			if res == nil {
				res = v
			} else {
				res = x.merge(edges[i].g, v, res)
			}
		}
		me.phi = append(me.phi, res)
	}
	keys := map[ssa.Value]bool{}
	for _, e := range edges {
		for k := range e.snap {
			keys[k] = true
		}
	}
	for k := range keys {
		var res Value
		for i := len(edges) - 1; i >= 0; i-- {
			v, ok := edges[i].snap[k]
			if !ok || v == nil {
				continue
			}
			if res == nil {
				res = v
			} else {
				res = x.merge(edges[i].g, v, res)
			}
		}
		if res != nil {
			if me.snap == nil {
				me.snap = map[ssa.Value]Value{}
			}
			me.snap[k] = res
		}
	}
	return me
}

type bitScanCtx struct {
	addr Value
	sq   int
}

// ---------------- blocks ----------------

func (x *Exec) runBlock(fr *Frame, b *ssa.BasicBlock) {
	edges := x.takePending(fr, b)
	if len(edges) == 0 {
		return
	}
	g := x.orGuards(edges)
	if g.IsFalse() {
		return
	}
	fi := fr.fi
	// merge snapshots of loop live-outs
	if len(edges) >= 1 {
		keys := map[ssa.Value]bool{}
		for _, e := range edges {
			for k := range e.snap {
				keys[k] = true
			}
		}
		for k := range keys {
			var res Value
			for i := len(edges) - 1; i >= 0; i-- {
				v, ok := edges[i].snap[k]
				if !ok || v == nil {
					continue
				}
				if res == nil {
					res = v
				} else {
					res = x.merge(edges[i].g, v, res)
				}
			}
			if res != nil {
				fr.env[fi.ValIdx[k]] = res
			}
		}
	}
	// phis
	nphi := 0
	for _, in := range b.Instrs {
		if _, ok := in.(*ssa.Phi); ok {
			nphi++
		} else {
			break
		}
	}
	if tb := os.Getenv("VX_TRACE_BLOCK"); tb != "" && tb == fmt.Sprintf("%s:%d", fi.Fn.Name(), b.Index) {
		for i, e := range edges {
			fmt.Fprintf(os.Stderr, "EDGE %d pred=%d(b%d) g=%s\n", i, e.predPos, b.Preds[e.predPos].Index, x.c.Show(e.g, 3))
			for pi, pv := range e.phi {
				if t, ok := pv.(*Term); ok {
					fmt.Fprintf(os.Stderr, "     phi%d = %s\n", pi, x.c.Show(t, 3))
				}
			}
		}
	}
	if tb := os.Getenv("VX_TRACE_BLOCK"); tb != "" && tb == fmt.Sprintf("%s:%d", fi.Fn.Name(), b.Index) {
		for i, e := range edges {
			fmt.Fprintf(os.Stderr, "EDGE %d pred=%d(b%d) g=%s\n", i, e.predPos, b.Preds[e.predPos].Index, x.c.Show(e.g, 3))
			for pi, pv := range e.phi {
				if t, ok := pv.(*Term); ok {
					fmt.Fprintf(os.Stderr, "     phi%d = %s\n", pi, x.c.Show(t, 3))
				}
			}
		}
	}
	for pi := 0; pi < nphi; pi++ {
		var res Value
		for i := len(edges) - 1; i >= 0; i-- {
			v := edges[i].phi[pi]
			if res == nil {
				res = v
			} else {
				res = x.merge(edges[i].g, v, res)
			}
		}
		fr.cur = g
		x.setVal(fr, b.Instrs[pi].(*ssa.Phi), res)
	}
	fr.cur = g
	for _, in := range b.Instrs[nphi:] {
		if fr.cur.IsFalse() {
			return
		}
		x.stat.instrs++
		if x.stat.instrs > x.maxInstr {
			x.fail("instruction budget exceeded")
		}
		if in.Pos().IsValid() {
			x.curPos = in.Pos()
		}
		x.step(fr, b, in)
		if x.killPath != nil {
			// a run-time check failed for certain on this path: execution does not continue
			fr.died = x.c.Or(fr.died, x.killPath)
			fr.cur = x.c.And(fr.cur, x.c.Not(x.killPath))
			x.killPath = nil
		}
	}
}

func (x *Exec) pushEdge(fr *Frame, from *ssa.BasicBlock, slot int, g *Term) {
	if g.IsFalse() {
		return
	}
	to := from.Succs[slot]
	// position of this edge in to.Preds
	occ := 0
	for s := 0; s < slot; s++ {
		if from.Succs[s] == to {
			occ++
		}
	}
	predPos := -1
	for i, p := range to.Preds {
		if p == from {
			if occ == 0 {
				predPos = i
				break
			}
			occ--
		}
	}
	if predPos < 0 {
		x.fail("edge not found in preds")
	}
	e := Edge{predPos: predPos, g: g}
	for _, in := range to.Instrs {
		phi, ok := in.(*ssa.Phi)
		if !ok {
			break
		}
		e.phi = append(e.phi, x.eval(fr, phi.Edges[predPos]))
	}
	// loops exited by this edge
	fi := fr.fi
	for l := fi.LoopOf[from.Index]; l != nil; l = l.Parent {
		if l.Blocks[to.Index] {
			break
		}
		for _, v := range l.LiveOut {
			if e.snap == nil {
				e.snap = map[ssa.Value]Value{}
			}
			if val := fr.env[fi.ValIdx[v]]; val != nil {
				e.snap[v] = val
			}
		}
	}
	fr.pending[to.Index] = append(fr.pending[to.Index], e)
}

// ---------------- values ----------------

func (x *Exec) eval(fr *Frame, v ssa.Value) Value {
	switch t := v.(type) {
	case *ssa.Const:
		return x.constValue(t)
	case *ssa.Global:
		return &PtrV{Obj: x.globalObj(t)}
	case *ssa.Function:
		return &FuncV{Fn: t}
	case *ssa.Builtin:
		return &FuncV{Name: t.Name()}
	}
	idx, ok := fr.fi.ValIdx[v]
	if !ok {
		x.fail("eval: unknown value %s (%T)", v.Name(), v)
	}
	r := fr.env[idx]
	if r == nil {
		x.fail("eval: value %s = %s not yet defined in %s", v.Name(), v.String(), fr.fi.Fn.Name())
	}
	return r
}

func (x *Exec) constValue(k *ssa.Const) Value {
	t := k.Type()
	if k.Value == nil {
		return x.zero(t)
	}
	switch u := t.Underlying().(type) {
	case *types.Basic:
		switch {
		case u.Info()&types.IsBoolean != 0:
			return x.c.Bool(constant.BoolVal(k.Value))
		case u.Info()&types.IsString != 0:
			return &StrV{Known: true, S: constant.StringVal(k.Value)}
		case u.Info()&types.IsInteger != 0:
			s, _ := x.sortOfBasic(u)
			if i, ok := constant.Int64Val(constant.ToInt(k.Value)); ok {
				return x.c.Const(s.W, uint64(i))
			}
			if uu, ok := constant.Uint64Val(constant.ToInt(k.Value)); ok {
				return x.c.Const(s.W, uu)
			}
		case u.Info()&types.IsFloat != 0:
			f, _ := constant.Float64Val(k.Value)
			return x.c.FpFromBits(x.c.Const(64, math.Float64bits(f)))
		}
	}
	x.fail("constValue: unsupported constant %v of type %v", k, t)
	return nil
}

func (x *Exec) term(fr *Frame, v ssa.Value) *Term {
	r := x.eval(fr, v)
	t, ok := r.(*Term)
	if !ok {
		x.fail("expected scalar for %s, got %T", v.String(), r)
	}
	return t
}

var traceSSA = func() map[string]bool {
	m := map[string]bool{}
	for _, n := range strings.Split(os.Getenv("VX_TRACE_SSA"), ",") {
		if n != "" {
			m[n] = true
		}
	}
	return m
}()

func (x *Exec) setVal(fr *Frame, v ssa.Value, val Value) {
	fr.env[fr.fi.ValIdx[v]] = val
	cm := ""
	if ph, ok := v.(*ssa.Phi); ok {
		cm = ph.Comment
	}
	if len(traceSSA) > 0 && (traceSSA[fr.fi.Fn.Name()+":"+v.Name()] || (cm != "" && traceSSA[fr.fi.Fn.Name()+":#"+cm])) {
		if t, ok := val.(*Term); ok && t.Sort.K != SFP {
			x.nprint++
			nm := fmt.Sprintf("trace.%03d.%s.%s.b%d", x.nprint, v.Name(), cm, v.(ssa.Instruction).Block().Index)
			x.traceEqs = append(x.traceEqs, x.c.And(x.c.Eq(x.c.Var(nm, t.Sort), t), x.c.Eq(x.c.Var(nm+".reached", BoolSort), fr.cur)))
		}
	}
}

func (x *Exec) globalObj(g *ssa.Global) *Object {
	if o, ok := x.globals[g]; ok {
		return o
	}
	et := g.Type().(*types.Pointer).Elem()
	var val Value
	if n := x.ld.dumpLookup(g); n != nil {
		val = &RawV{N: n, Typ: et, Pkg: g.Pkg.Pkg.Path()}
	} else if pat, ok := x.regexGlobals()[g]; ok {
		val = &PtrV{Obj: x.newObject(nil, &RegexV{Pat: pat}, "regexp "+pat)}
	} else {
		val = x.zero(et)
	}
	o := x.newObject(et, val, g.String())
	x.globals[g] = o
	return o
}

// ---------------- instructions ----------------

func (x *Exec) step(fr *Frame, b *ssa.BasicBlock, in ssa.Instruction) {
	c := x.c
	g := fr.cur
	switch t := in.(type) {
	case *ssa.DebugRef:
	case *ssa.Alloc:
		et := t.Type().(*types.Pointer).Elem()
		o := x.newObject(et, x.zero(et), t.Comment)
		o.Birth = g
		x.setVal(fr, t, &PtrV{Obj: o})
	case *ssa.Store:
		x.store(x.ptrChecked(fr, t.Addr, g, t.Pos()), x.eval(fr, t.Val), g)
	case *ssa.UnOp:
		x.setVal(fr, t, x.unop(fr, t, g))
	case *ssa.BinOp:
		x.setVal(fr, t, x.binop(fr, t, g))
	case *ssa.Convert:
		x.setVal(fr, t, x.convert(x.eval(fr, t.X), t.X.Type(), t.Type()))
	case *ssa.ChangeType:
		x.setVal(fr, t, x.eval(fr, t.X))
	case *ssa.ChangeInterface:
		x.setVal(fr, t, x.eval(fr, t.X))
	case *ssa.MakeInterface:
		x.setVal(fr, t, &IfaceV{T: t.X.Type(), V: x.eval(fr, t.X)})
	case *ssa.TypeAssert:
		x.setVal(fr, t, x.typeAssert(fr, t, g))
	case *ssa.FieldAddr:
		p := x.ptrChecked(fr, t.X, g, t.Pos())
		x.setVal(fr, t, x.ptrExtend(p, PathElem{Field: t.Field}))
	case *ssa.Field:
		sv := x.force(x.eval(fr, t.X)).(*StructV)
		x.setVal(fr, t, sv.F[t.Field])
	case *ssa.IndexAddr:
		x.setVal(fr, t, x.indexAddr(fr, t, g))
	case *ssa.Index:
		x.setVal(fr, t, x.index(fr, t, g))
	case *ssa.Slice:
		x.setVal(fr, t, x.sliceOp(fr, t, g))
	case *ssa.MakeSlice:
		x.setVal(fr, t, x.makeSlice(fr, t, g))
	case *ssa.MakeClosure:
		fv := &FuncV{Fn: t.Fn.(*ssa.Function)}
		for _, bv := range t.Bindings {
			fv.Bind = append(fv.Bind, x.eval(fr, bv))
		}
		x.setVal(fr, t, fv)
	case *ssa.MakeMap:
		x.setVal(fr, t, x.makeMap(t.Type()))
	case *ssa.MapUpdate:
		x.mapUpdate(x.eval(fr, t.Map), x.eval(fr, t.Key), x.eval(fr, t.Value), g)
	case *ssa.Lookup:
		x.setVal(fr, t, x.lookup(fr, t, g))
	case *ssa.Range:
		x.setVal(fr, t, x.rangeInit(fr, t))
	case *ssa.Next:
		x.setVal(fr, t, x.rangeNext(fr, t, g))
	case *ssa.Extract:
		tv, ok := x.eval(fr, t.Tuple).(*TupleV)
		if !ok {
			x.fail("extract from non-tuple %T", x.eval(fr, t.Tuple))
		}
		x.setVal(fr, t, tv.E[t.Index])
	case *ssa.Call:
		r, died := x.doCall(fr, &t.Call, g, t.Pos())
		if t.Type() != nil {
			if tup, ok := t.Type().(*types.Tuple); ok && tup.Len() == 0 {
				r = nil
			}
		}
		if r != nil || !isVoid(t) {
			x.setVal(fr, t, r)
		}
		if died != nil && !died.IsFalse() {
			fr.died = c.Or(fr.died, died)
			fr.cur = c.And(fr.cur, c.Not(died))
		}
	case *ssa.Go:
		x.doGo(fr, t, g)
	case *ssa.Defer:
		d := deferred{g: g, call: &t.Call}
		if t.Call.IsInvoke() {
			d.fn = x.eval(fr, t.Call.Value)
		} else {
			d.fn = x.eval(fr, t.Call.Value)
		}
		for _, a := range t.Call.Args {
			d.args = append(d.args, x.eval(fr, a))
		}
		fr.defers = append(fr.defers, d)
	case *ssa.RunDefers:
		for i := len(fr.defers) - 1; i >= 0; i-- {
			d := fr.defers[i]
			gg := c.And(g, d.g)
			if gg.IsFalse() {
				continue
			}
			x.callValue(fr, d.fn, d.call, d.args, gg, t.Pos())
		}
	case *ssa.Panic:
		if !x.panicAsAssume {
			x.addOblig("panic", "explicit-panic@"+x.posStr(t.Pos()), g, t.Pos())
		}
		fr.died = c.Or(fr.died, g)
		fr.cur = c.False
	case *ssa.Return:
		var rv Value
		switch len(t.Results) {
		case 0:
		case 1:
			rv = x.eval(fr, t.Results[0])
		default:
			tv := &TupleV{}
			for _, r := range t.Results {
				tv.E = append(tv.E, x.eval(fr, r))
			}
			rv = tv
		}
		if rv != nil {
			if fr.ret == nil {
				fr.ret = rv
			} else {
				fr.ret = x.merge(g, rv, fr.ret)
			}
		}
		fr.retG = c.Or(fr.retG, g)
	case *ssa.Jump:
		x.pushEdge(fr, b, 0, g)
	case *ssa.If:
		cond := x.term(fr, t.Cond)
		if fr.forceIf == t {
			cond = c.Bool(fr.forceVal)
		}
		x.pushEdge(fr, b, 0, c.And(g, cond))
		x.pushEdge(fr, b, 1, c.And(g, c.Not(cond)))
	default:
		x.fail("unsupported instruction %T: %s", in, in.String())
	}
}

func isVoid(v ssa.Value) bool {
	if tup, ok := v.Type().(*types.Tuple); ok {
		return tup.Len() == 0
	}
	return false
}

// ptrChecked evaluates a pointer operand and records the nil-dereference check.
func (x *Exec) ptrChecked(fr *Frame, v ssa.Value, g *Term, pos token.Pos) Value {
	p := x.eval(fr, v)
	switch pv := p.(type) {
	case *PtrV:
		if pv.Obj == nil {
			x.runtimeCheck("nil-deref", g, x.c.True, pos)
			// continue with a dummy object so execution can proceed
			et := v.Type().Underlying().(*types.Pointer).Elem()
			return &PtrV{Obj: x.newObject(et, x.zero(et), "nil-dummy")}
		}
		return pv
	case *PtrSetV:
		bad := x.c.False
		var alts []PtrAlt
		for _, al := range pv.Alts {
			if al.P.Obj == nil {
				bad = x.c.Or(bad, al.G)
			} else {
				alts = append(alts, al)
			}
		}
		x.runtimeCheck("nil-deref", g, bad, pos)
		if len(alts) == 1 {
			return alts[0].P
		}
		return &PtrSetV{Alts: alts}
	}
	x.fail("ptrChecked: %T is not a pointer (%s)", p, v.String())
	return nil
}

func (x *Exec) ptrExtend(p Value, pe PathElem) Value {
	switch pv := p.(type) {
	case *PtrV:
		np := make([]PathElem, len(pv.Path)+1)
		copy(np, pv.Path)
		np[len(pv.Path)] = pe
		return &PtrV{Obj: pv.Obj, Path: np}
	case *PtrSetV:
		out := &PtrSetV{}
		for _, al := range pv.Alts {
			out.Alts = append(out.Alts, PtrAlt{G: al.G, P: x.ptrExtend(al.P, pe).(*PtrV)})
		}
		return out
	}
	x.fail("ptrExtend: %T", p)
	return nil
}

func (x *Exec) isNilTerm(v Value) *Term {
	switch t := v.(type) {
	case *PtrV:
		return x.c.Bool(t.Obj == nil)
	case *PtrSetV:
		r := x.c.False
		for _, al := range t.Alts {
			if al.P.Obj == nil {
				r = x.c.Or(r, al.G)
			}
		}
		return r
	case *SliceV:
		return x.c.Bool(t.Base == nil)
	case *SliceGV:
		return x.c.Ite(t.G, x.isNilTerm(t.A), x.isNilTerm(t.B))
	case *MapV:
		return x.c.Bool(t.Obj == nil)
	case *FuncV:
		return x.c.Bool(t.Fn == nil && t.Name == "")
	case *IfaceV:
		return x.c.Bool(t.T == nil)
	case *IfaceGV:
		return x.c.Ite(t.G, x.isNilTerm(t.A), x.isNilTerm(t.B))
	}
	x.fail("isNil: %T", v)
	return nil
}

func (x *Exec) unop(fr *Frame, t *ssa.UnOp, g *Term) Value {
	c := x.c
	switch t.Op {
	case token.MUL:
		return x.restrictValue(x.load(x.ptrChecked(fr, t.X, g, t.Pos())), g)
	case token.NOT:
		return c.Not(x.term(fr, t.X))
	case token.SUB:
		v := x.term(fr, t.X)
		if v.Sort.K == SFP {
			return c.FpNeg(v)
		}
		return c.Neg(v)
	case token.XOR:
		return c.BvNot(x.term(fr, t.X))
	}
	x.fail("unsupported unop %s", t.Op)
	return nil
}

func (x *Exec) binop(fr *Frame, t *ssa.BinOp, g *Term) Value {
	c := x.c
	xv, yv := x.eval(fr, t.X), x.eval(fr, t.Y)
	if t.Op == token.EQL || t.Op == token.NEQ {
		r := x.equal(xv, yv, t.X.Type())
		if t.Op == token.NEQ {
			r = c.Not(r)
		}
		return r
	}
	if sx, ok := xv.(*StrV); ok {
		sy := yv.(*StrV)
		switch t.Op {
		case token.ADD:
			return x.strConcat(sx, sy)
		case token.LSS, token.GTR, token.LEQ, token.GEQ:
			if sx.Known && sy.Known {
				switch t.Op {
				case token.LSS:
					return c.Bool(sx.S < sy.S)
				case token.GTR:
					return c.Bool(sx.S > sy.S)
				case token.LEQ:
					return c.Bool(sx.S <= sy.S)
				default:
					return c.Bool(sx.S >= sy.S)
				}
			}
		}
		x.fail("unsupported string binop %s", t.Op)
	}
	a, ok1 := xv.(*Term)
	b, ok2 := yv.(*Term)
	if !ok1 || !ok2 {
		x.fail("binop %s on %T,%T", t.Op, xv, yv)
	}
	if a.Sort.K == SBool {
		switch t.Op {
		case token.AND, token.LAND:
			return c.And(a, b)
		case token.OR, token.LOR:
			return c.Or(a, b)
		}
		x.fail("bool binop %s", t.Op)
	}
	if a.Sort.K == SFP {
		switch t.Op {
		case token.ADD:
			return c.FpBin(OFpAdd, a, b)
		case token.SUB:
			return c.FpBin(OFpSub, a, b)
		case token.MUL:
			return c.FpBin(OFpMul, a, b)
		case token.QUO:
			return c.FpBin(OFpDiv, a, b)
		case token.LSS:
			return c.FpCmp(OFpLt, a, b)
		case token.LEQ:
			return c.FpCmp(OFpLe, a, b)
		case token.GTR:
			return c.FpCmp(OFpLt, b, a)
		case token.GEQ:
			return c.FpCmp(OFpLe, b, a)
		}
		x.fail("float binop %s", t.Op)
	}
	signed := isSigned(t.X.Type())
	switch t.Op {
	case token.ADD:
		return c.Add(a, b)
	case token.SUB:
		return c.Sub(a, b)
	case token.MUL:
		return c.Mul(a, b)
	case token.QUO, token.REM:
		x.runtimeCheck("div-by-zero", g, c.Eq(b, c.Const(b.Sort.W, 0)), t.Pos())
		if signed {
			if t.Op == token.QUO {
				if x.opts["abstract-div"] == "on" && b.IsConst() && !a.IsConst() && sx(b.K, b.Sort.W) > 0 {
					return x.abstractDiv(a, b)
				}
				return c.SDiv(a, b)
			}
			return c.SRem(a, b)
		}
		if t.Op == token.QUO {
			return c.UDiv(a, b)
		}
		return c.URem(a, b)
	case token.AND:
		return c.BvAnd(a, b)
	case token.OR:
		return c.BvOr(a, b)
	case token.XOR:
		return c.BvXor(a, b)
	case token.AND_NOT:
		return c.BvAnd(a, c.BvNot(b))
	case token.SHL, token.SHR:
		w := a.Sort.W
		cw := b.Sort.W
		if isSigned(t.Y.Type()) {
			x.runtimeCheck("negative-shift", g, c.Slt(b, c.Const(cw, 0)), t.Pos())
		}
		var cnt *Term
		big := c.False
		if cw > w {
			big = c.Ne(c.Extract(b, cw-1, w), c.Const(cw-w, 0))
			cnt = c.Extract(b, w-1, 0)
		} else {
			cnt = c.ZeroExt(b, w-cw)
		}
		var r, over *Term
		switch {
		case t.Op == token.SHL:
			r, over = c.Shl(a, cnt), c.Const(w, 0)
		case signed:
			r, over = c.AShr(a, cnt), c.AShr(a, c.Const(w, uint64(w-1)))
		default:
			r, over = c.LShr(a, cnt), c.Const(w, 0)
		}
		return c.Ite(big, over, r)
	case token.LSS:
		if signed {
			return c.Slt(a, b)
		}
		return c.Ult(a, b)
	case token.LEQ:
		if signed {
			return c.Sle(a, b)
		}
		return c.Ule(a, b)
	case token.GTR:
		if signed {
			return c.Slt(b, a)
		}
		return c.Ult(b, a)
	case token.GEQ:
		if signed {
			return c.Sle(b, a)
		}
		return c.Ule(b, a)
	}
	x.fail("unsupported binop %s", t.Op)
	return nil
}

// abstractDiv replaces a/c (c > 0 constant, signed) by a fresh variable q constrained by the
// defining property of truncated division for a >= 0:  0 <= q, c*q <= a < c*q + c (no overflow since
// q <= a). For a < 0 q stays unconstrained (over-approximation: sound for "unsat"; a counterexample
// is confirmed or refuted by the native replay).
func (x *Exec) abstractDiv(a, b *Term) *Term {
	c := x.c
	key := fmt.Sprintf("div:%d:%d", a.ID, b.K)
	if v, ok := x.ghost[key]; ok {
		return v.(*Term)
	}
	w := a.Sort.W
	q := c.Fresh("vx.quot", BV(w))
	zero := c.Const(w, 0)
	nonneg := c.Sle(zero, a)
	cq := c.Mul(q, b)
	def := c.And(c.Sle(zero, q), c.And(c.Sle(q, a), c.And(c.Sle(cq, a), c.Slt(c.Sub(a, cq), b))))
	x.assumes = append(x.assumes, c.Implies(nonneg, def))
	x.ghost[key] = q
	x.modeled["integer division by a positive constant abstracted by its defining inequalities (opt abstract-div)"]++
	return q
}

// conjuncts returns the set of conjuncts of guard g (memoised).
func (x *Exec) conjuncts(g *Term) map[int32]bool {
	if x.conjMemo == nil {
		x.conjMemo = map[int32]map[int32]bool{}
	}
	if m, ok := x.conjMemo[g.ID]; ok {
		return m
	}
	m := map[int32]bool{}
	var rec func(t *Term, d int)
	rec = func(t *Term, d int) {
		if t.Op == OAnd && d < 200 {
			// reuse memo of sub-conjunctions
			for _, a := range t.A {
				if sub, ok := x.conjMemo[a.ID]; ok {
					for k := range sub {
						m[k] = true
					}
				} else {
					rec(a, d+1)
				}
			}
			return
		}
		m[t.ID] = true
	}
	rec(g, 0)
	m[g.ID] = true
	x.conjMemo[g.ID] = m
	return m
}

// restrictValue simplifies a value read under guard g: ite(c, a, b) with c (or ¬c) a conjunct of g
// is a (or b). Values written under a guard and read back under the same guard lose their ite.
func (x *Exec) restrictValue(v Value, g *Term) Value {
	if g.IsTrue() || os.Getenv("VX_NO_RESTRICT") != "" {
		return v
	}
	t, ok := v.(*Term)
	if !ok {
		return v
	}
	if t.Op != OIte {
		return v
	}
	cj := x.conjuncts(g)
	for d := 0; d < 16 && t.Op == OIte; d++ {
		c := t.A[0]
		if cj[c.ID] || x.impliedBy(cj, c) {
			t = t.A[1]
			continue
		}
		nc := x.c.Not(c)
		if cj[nc.ID] {
			t = t.A[2]
			continue
		}
		break
	}
	return t
}

// impliedBy: c is a conjunction whose conjuncts are all in cj
func (x *Exec) impliedBy(cj map[int32]bool, c *Term) bool {
	if c.Op != OAnd {
		return false
	}
	for _, a := range c.A {
		if !cj[a.ID] && !x.impliedBy(cj, a) {
			return false
		}
	}
	return true
}

func (x *Exec) equal(a, b Value, t types.Type) *Term {
	c := x.c
	a, b = x.force(a), x.force(b)
	switch av := a.(type) {
	case *Term:
		bv := b.(*Term)
		if av.Sort.K == SFP {
			return c.FpCmp(OFpEq, av, bv)
		}
		return c.Eq(av, bv)
	case *StrV:
		return x.strEq(av, b.(*StrV))
	case *StructV:
		bv := b.(*StructV)
		r := c.True
		st := t.Underlying().(*types.Struct)
		for i := range av.F {
			r = c.And(r, x.equal(av.F[i], bv.F[i], st.Field(i).Type()))
		}
		return r
	case *ArrayV:
		bv := b.(*ArrayV)
		r := c.True
		et := t.Underlying().(*types.Array).Elem()
		for i := range av.E {
			r = c.And(r, x.equal(av.E[i], bv.E[i], et))
		}
		return r
	case *PtrV, *PtrSetV:
		return x.ptrEq(a, b)
	case *SliceV, *SliceGV, *MapV, *FuncV:
		// only comparison with nil is legal
		if isNilValue(b) {
			return x.isNilTerm(a)
		}
		if isNilValue(a) {
			return x.isNilTerm(b)
		}
	case *IfaceV, *IfaceGV:
		if isNilValue(b) {
			return x.isNilTerm(a)
		}
		if isNilValue(a) {
			return x.isNilTerm(b)
		}
		ai, ok1 := a.(*IfaceV)
		bi, ok2 := b.(*IfaceV)
		if ok1 && ok2 {
			if !types.Identical(ai.T, bi.T) {
				return c.False
			}
			return x.equal(ai.V, bi.V, ai.T)
		}
	}
	x.fail("equal: unsupported comparison %T == %T", a, b)
	return nil
}

func isNilValue(v Value) bool {
	switch t := v.(type) {
	case *PtrV:
		return t.Obj == nil
	case *SliceV:
		return t.Base == nil
	case *MapV:
		return t.Obj == nil
	case *FuncV:
		return t.Fn == nil && t.Name == ""
	case *IfaceV:
		return t.T == nil
	}
	return false
}

func (x *Exec) ptrEq(a, b Value) *Term {
	c := x.c
	alts := func(v Value) []PtrAlt {
		switch t := v.(type) {
		case *PtrV:
			return []PtrAlt{{G: c.True, P: t}}
		case *PtrSetV:
			return t.Alts
		}
		x.fail("ptrEq: %T", v)
		return nil
	}
	r := c.False
	for _, pa := range alts(a) {
		for _, pb := range alts(b) {
			if pa.P.Obj != pb.P.Obj || len(pa.P.Path) != len(pb.P.Path) {
				continue
			}
			e := c.And(pa.G, pb.G)
			for i := range pa.P.Path {
				ea, eb := pa.P.Path[i], pb.P.Path[i]
				if ea.Field != eb.Field {
					e = c.False
					break
				}
				if ea.Field == -1 {
					e = c.And(e, c.Eq(ea.Idx, eb.Idx))
				}
			}
			r = c.Or(r, e)
		}
	}
	return r
}

func (x *Exec) convert(v Value, from, to types.Type) Value {
	c := x.c
	fu, tu := from.Underlying(), to.Underlying()
	switch tv := v.(type) {
	case *Term:
		if isInteger(from) && isInteger(to) {
			ts, _ := x.scalarSort(to)
			return c.Resize(tv, ts.W, isSigned(from))
		}
		if isInteger(from) && isFloat(to) {
			return c.FpFromInt(tv, isSigned(from))
		}
		if isFloat(from) && isInteger(to) {
			ts, _ := x.scalarSort(to)
			if tv.Op == OApply && tv.Name == "vx.floorlog2.uint" {
				// floor(log2(float64(u))) converted to an integer: index of the highest set bit for u>0;
				// for u==0 (log2 = -Inf) the conversion result is implementation-defined: arbitrary value
				u := tv.A[0]
				hi := c.Sub(c.Const(64, uint64(u.Sort.W-1)), x.clz(u))
				arb := c.Fresh("float-to-int-of-minus-inf", BV(64))
				return c.Resize(c.Ite(c.Eq(u, c.Const(u.Sort.W, 0)), arb, hi), ts.W, false)
			}
			return c.FpToInt(tv, ts.W, isSigned(to))
		}
		if isFloat(from) && isFloat(to) {
			return tv
		}
		if isInteger(from) && isString(to) {
			// string(rune): ASCII only
			if tv.IsConst() && tv.K < 128 {
				return &StrV{Known: true, S: string(rune(tv.K))}
			}
			b := c.Extract(tv, 7, 0)
			return &StrV{Len: c.Const(64, 1), B: []*Term{b}}
		}
		if _, ok := tu.(*types.Pointer); ok { // unsafe.Pointer conversions etc.
			x.fail("convert scalar to pointer")
		}
	case *StrV:
		if isString(to) {
			return tv
		}
		if sl, ok := tu.(*types.Slice); ok {
			// []byte(s)
			s := x.strSym(tv)
			et := sl.Elem()
			e := make([]Value, len(s.B))
			for i := range e {
				e[i] = s.B[i]
				if bs, _ := x.scalarSort(et); bs.W != 8 {
					x.fail("[]rune(string) unsupported")
				}
			}
			o := x.newObject(types.NewArray(et, int64(len(e))), &ArrayV{E: e}, "bytes")
			return &SliceV{Base: &PtrV{Obj: o}, Off: c.Const(64, 0), Len: s.Len, Cap: c.Const(64, uint64(len(e)))}
		}
	case *SliceV:
		if isString(to) {
			// string([]byte) with concrete off
			if tv.Base == nil {
				return &StrV{Known: true}
			}
			arr := x.force(x.load(tv.Base))
			av, ok := arr.(*ArrayV)
			if !ok || !tv.Off.IsConst() {
				x.fail("string([]byte): unsupported backing")
			}
			out := &StrV{Len: tv.Len}
			for i := int(tv.Off.K); i < len(av.E); i++ {
				out.B = append(out.B, av.E[i].(*Term))
			}
			return x.strNormalize(out)
		}
		if _, ok := tu.(*types.Slice); ok {
			return tv
		}
	case *PtrV, *PtrSetV:
		return v
	}
	_ = fu
	x.fail("unsupported conversion %v -> %v (%T)", from, to, v)
	return nil
}

func (x *Exec) strNormalize(s *StrV) *StrV {
	if s.Known {
		return s
	}
	if s.Len.IsConst() {
		n := int(s.Len.K)
		if n <= len(s.B) {
			all := true
			bs := make([]byte, n)
			for i := 0; i < n; i++ {
				if !s.B[i].IsConst() {
					all = false
					break
				}
				bs[i] = byte(s.B[i].K)
			}
			if all {
				return &StrV{Known: true, S: string(bs)}
			}
		}
	}
	return s
}

func (x *Exec) strConcat(a, b *StrV) *StrV {
	if a.Known && b.Known {
		return &StrV{Known: true, S: a.S + b.S}
	}
	if a.Known && a.S == "" {
		return b
	}
	if b.Known && b.S == "" {
		return a
	}
	c := x.c
	sa, sb := x.strSym(a), x.strSym(b)
	out := &StrV{Len: c.Add(sa.Len, sb.Len)}
	n := len(sa.B) + len(sb.B)
	if sa.Len.IsConst() {
		la := int(sa.Len.K)
		out.B = append(out.B, sa.B[:la]...)
		out.B = append(out.B, sb.B...)
		return x.strNormalize(out)
	}
	// result byte i = i < la ? a[i] : b[i-la]
	for i := 0; i < n; i++ {
		var r *Term = c.Const(8, 0)
		// choose by la = 0..min(i+1? ...)
		for la := len(sa.B); la >= 0; la-- {
			var v *Term
			if i < la {
				v = sa.B[i]
			} else if i-la < len(sb.B) {
				v = sb.B[i-la]
			} else {
				v = c.Const(8, 0)
			}
			r = c.Ite(c.Eq(sa.Len, c.Const(64, uint64(la))), v, r)
		}
		out.B = append(out.B, r)
	}
	return out
}

func (x *Exec) typeAssert(fr *Frame, t *ssa.TypeAssert, g *Term) Value {
	v := x.eval(fr, t.X)
	iv, ok := v.(*IfaceV)
	if !ok {
		x.fail("typeAssert on %T", v)
	}
	var okT *Term
	var res Value
	if _, isIface := t.AssertedType.Underlying().(*types.Interface); isIface {
		okT = x.c.Bool(iv.T != nil)
		res = iv
	} else if iv.T != nil && types.Identical(iv.T, t.AssertedType) {
		okT = x.c.True
		res = iv.V
	} else {
		okT = x.c.False
		res = x.zero(t.AssertedType)
	}
	if t.CommaOk {
		return &TupleV{E: []Value{res, okT}}
	}
	x.runtimeCheck("type-assert", g, x.c.Not(okT), t.Pos())
	return res
}

// ---------------- arrays, slices ----------------

func (x *Exec) idx64(fr *Frame, v ssa.Value) *Term {
	t := x.term(fr, v)
	return x.c.Resize(t, 64, isSigned(v.Type()))
}

func (x *Exec) indexAddr(fr *Frame, t *ssa.IndexAddr, g *Term) Value {
	c := x.c
	idx := x.idx64(fr, t.Index)
	base := x.eval(fr, t.X)
	switch bv := base.(type) {
	case *SliceGV:
		var alts []sliceAlt
		x.sliceAlts(bv, c.True, &alts)
		out := &PtrSetV{}
		bad := c.False
		for _, al := range alts {
			if al.s.Base == nil {
				bad = c.Or(bad, al.g)
				continue
			}
			bad = c.Or(bad, c.And(al.g, c.Not(c.Ult(idx, al.s.Len))))
			p := x.ptrExtend(al.s.Base, PathElem{Field: -1, Idx: c.Add(al.s.Off, idx)}).(*PtrV)
			out.Alts = append(out.Alts, PtrAlt{G: al.g, P: p})
		}
		x.runtimeCheck("index-out-of-range", g, bad, t.Pos())
		if len(out.Alts) == 0 {
			et := t.Type().(*types.Pointer).Elem()
			return &PtrV{Obj: x.newObject(et, x.zero(et), "oob-dummy")}
		}
		return out
	case *SliceV:
		if bv.Base == nil {
			x.runtimeCheck("index-out-of-range", g, c.True, t.Pos())
			et := t.Type().(*types.Pointer).Elem()
			return &PtrV{Obj: x.newObject(et, x.zero(et), "oob-dummy")}
		}
		oob := c.Not(c.Ult(idx, bv.Len))
		x.runtimeCheck("index-out-of-range", g, oob, t.Pos())
		if oob.IsTrue() {
			et := t.Type().(*types.Pointer).Elem()
			return &PtrV{Obj: x.newObject(et, x.zero(et), "oob-dummy")}
		}
		return x.ptrExtend(bv.Base, PathElem{Field: -1, Idx: c.Add(bv.Off, idx)})
	case *PtrV, *PtrSetV:
		p := x.ptrChecked(fr, t.X, g, t.Pos())
		at := t.X.Type().Underlying().(*types.Pointer).Elem().Underlying().(*types.Array)
		x.runtimeCheck("index-out-of-range", g, c.Not(c.Ult(idx, c.Const(64, uint64(at.Len())))), t.Pos())
		return x.ptrExtend(p, PathElem{Field: -1, Idx: idx})
	}
	x.fail("indexAddr on %T", base)
	return nil
}

func (x *Exec) index(fr *Frame, t *ssa.Index, g *Term) Value {
	c := x.c
	idx := x.idx64(fr, t.Index)
	base := x.force(x.eval(fr, t.X))
	switch bv := base.(type) {
	case *ArrayV:
		x.runtimeCheck("index-out-of-range", g, c.Not(c.Ult(idx, c.Const(64, uint64(len(bv.E))))), t.Pos())
		return x.get(bv, []PathElem{{Field: -1, Idx: idx}})
	case *SymArrV, *BigConstV:
		return x.get(bv, []PathElem{{Field: -1, Idx: idx}})
	case *StrV:
		return x.strIndex(bv, idx, g, t.Pos())
	}
	x.fail("index on %T", base)
	return nil
}

func (x *Exec) strIndex(s *StrV, idx *Term, g *Term, pos token.Pos) *Term {
	c := x.c
	ss := x.strSym(s)
	x.runtimeCheck("string-index-out-of-range", g, c.Not(c.Ult(idx, ss.Len)), pos)
	if idx.IsConst() {
		if idx.K < uint64(len(ss.B)) {
			return ss.B[idx.K]
		}
		return c.Const(8, 0)
	}
	r := c.Const(8, 0)
	for i := len(ss.B) - 1; i >= 0; i-- {
		r = c.Ite(c.Eq(idx, c.Const(64, uint64(i))), ss.B[i], r)
	}
	return r
}

func (x *Exec) sliceOp(fr *Frame, t *ssa.Slice, g *Term) Value {
	c := x.c
	base := x.eval(fr, t.X)
	var lo, hi, mx *Term
	if t.Low != nil {
		lo = x.idx64(fr, t.Low)
	} else {
		lo = c.Const(64, 0)
	}
	if t.High != nil {
		hi = x.idx64(fr, t.High)
	}
	if t.Max != nil {
		mx = x.idx64(fr, t.Max)
	}
	switch bv := base.(type) {
	case *SliceGV:
		var alts []sliceAlt
		x.sliceAlts(bv, c.True, &alts)
		var res Value
		for i := len(alts) - 1; i >= 0; i-- {
			r := x.sliceOfSlice(alts[i].s, lo, hi, mx, c.And(g, alts[i].g), t.Pos())
			if res == nil {
				res = r
			} else {
				res = x.merge(alts[i].g, r, res)
			}
		}
		return res
	case *StrV:
		ss := x.strSym(bv)
		if hi == nil {
			hi = ss.Len
		}
		x.runtimeCheck("slice-bounds", g, c.Or(c.Not(c.Ule(lo, hi)), c.Not(c.Ule(hi, ss.Len))), t.Pos())
		return x.substr(ss, lo, hi)
	case *SliceV:
		return x.sliceOfSlice(bv, lo, hi, mx, g, t.Pos())
	case *PtrV:
		// pointer to array
		p := x.ptrChecked(fr, t.X, g, t.Pos()).(*PtrV)
		at := t.X.Type().Underlying().(*types.Pointer).Elem().Underlying().(*types.Array)
		n := c.Const(64, uint64(at.Len()))
		if hi == nil {
			hi = n
		}
		if mx == nil {
			mx = n
		}
		bad := c.Or(c.Not(c.Ule(lo, hi)), c.Or(c.Not(c.Ule(hi, mx)), c.Not(c.Ule(mx, n))))
		x.runtimeCheck("slice-bounds", g, bad, t.Pos())
		return &SliceV{Base: p, Off: lo, Len: c.Sub(hi, lo), Cap: c.Sub(mx, lo)}
	}
	x.fail("slice of %T", base)
	return nil
}

func (x *Exec) sliceOfSlice(bv *SliceV, lo, hi, mx *Term, g *Term, pos token.Pos) Value {
	c := x.c
	if bv.Base == nil {
		if hi == nil {
			hi = c.Const(64, 0)
		}
		x.runtimeCheck("slice-bounds", g, c.Or(c.Ne(lo, c.Const(64, 0)), c.Ne(hi, c.Const(64, 0))), pos)
		return bv
	}
	if hi == nil {
		hi = bv.Len
	}
	if mx == nil {
		mx = bv.Cap
	}
	bad := c.Or(c.Not(c.Ule(lo, hi)), c.Or(c.Not(c.Ule(hi, mx)), c.Not(c.Ule(mx, bv.Cap))))
	x.runtimeCheck("slice-bounds", g, bad, pos)
	return &SliceV{Base: bv.Base, Off: c.Add(bv.Off, lo), Len: c.Sub(hi, lo), Cap: c.Sub(mx, lo)}
}

func (x *Exec) substr(ss *StrV, lo, hi *Term) *StrV {
	c := x.c
	if ss.Known {
		ss = x.strSym(ss)
	}
	out := &StrV{Len: c.Sub(hi, lo)}
	if lo.IsConst() {
		k := int(lo.K)
		if k <= len(ss.B) {
			out.B = append(out.B, ss.B[k:]...)
		}
		if hi.IsConst() && int(hi.K-lo.K) < len(out.B) {
			out.B = out.B[:int(hi.K-lo.K)]
		}
		return x.strNormalize(out)
	}
	n := len(ss.B)
	for i := 0; i < n; i++ {
		r := c.Const(8, 0)
		for k := n - 1 - i; k >= 0; k-- {
			r = c.Ite(c.Eq(lo, c.Const(64, uint64(k))), ss.B[i+k], r)
		}
		out.B = append(out.B, r)
	}
	return out
}

func (x *Exec) makeSlice(fr *Frame, t *ssa.MakeSlice, g *Term) Value {
	c := x.c
	ln := x.idx64(fr, t.Len)
	cp := x.idx64(fr, t.Cap)
	et := t.Type().Underlying().(*types.Slice).Elem()
	x.runtimeCheck("makeslice-len", g, c.Or(c.Slt(ln, c.Const(64, 0)), c.Slt(cp, ln)), t.Pos())
	if cp.IsConst() && cp.K <= bigArrayThreshold {
		n := int(cp.K)
		e := make([]Value, n)
		z := x.zero(et)
		for i := range e {
			e[i] = z
		}
		o := x.newObject(types.NewArray(et, int64(n)), &ArrayV{E: e}, "makeslice")
		return &SliceV{Base: &PtrV{Obj: o}, Off: c.Const(64, 0), Len: ln, Cap: cp}
	}
	// large or symbolic capacity
	if _, ok := et.Underlying().(*types.Basic); ok || isFlat(et) {
		o := x.newObject(types.NewSlice(et), x.zeroSymArr(et, cp), "makeslice-big")
		return &SliceV{Base: &PtrV{Obj: o}, Off: c.Const(64, 0), Len: ln, Cap: cp}
	}
	x.fail("makeslice: unsupported element type %v with capacity %s", et, c.Show(cp, 2))
	return nil
}

func isFlat(t types.Type) bool {
	switch u := t.Underlying().(type) {
	case *types.Basic:
		return u.Info()&(types.IsInteger|types.IsBoolean) != 0
	case *types.Struct:
		for i := 0; i < u.NumFields(); i++ {
			if !isFlat(u.Field(i).Type()) {
				return false
			}
		}
		return true
	case *types.Array:
		return u.Len() <= bigArrayThreshold && isFlat(u.Elem())
	}
	return false
}

// ---------------- calls ----------------

func (x *Exec) doCall(fr *Frame, cc *ssa.CallCommon, g *Term, pos token.Pos) (Value, *Term) {
	var args []Value
	if cc.IsInvoke() {
		recv := x.eval(fr, cc.Value)
		for _, a := range cc.Args {
			args = append(args, x.eval(fr, a))
		}
		return x.invoke(recv, cc.Method, args, g, pos)
	}
	for _, a := range cc.Args {
		args = append(args, x.eval(fr, a))
	}
	fv := x.eval(fr, cc.Value)
	return x.callValue(fr, fv, cc, args, g, pos)
}

func (x *Exec) callValue(fr *Frame, fv Value, cc *ssa.CallCommon, args []Value, g *Term, pos token.Pos) (Value, *Term) {
	if cc != nil && cc.IsInvoke() {
		return x.invoke(fv, cc.Method, args, g, pos)
	}
	f, ok := fv.(*FuncV)
	if !ok {
		x.fail("call of non-function %T", fv)
	}
	if f.Fn == nil {
		if f.Name == "" {
			x.runtimeCheck("nil-func-call", g, x.c.True, pos)
			return nil, x.c.False
		}
		return x.builtin(fr, f.Name, cc, args, g, pos), nil
	}
	return x.callFunc(f.Fn, f.Bind, args, g, pos)
}

func (x *Exec) invoke(recv Value, m *types.Func, args []Value, g *Term, pos token.Pos) (Value, *Term) {
	switch iv := recv.(type) {
	case *IfaceV:
		if iv.T == nil {
			x.runtimeCheck("nil-interface-call", g, x.c.True, pos)
			return x.zeroResult(m.Type().(*types.Signature)), x.c.False
		}
		if r, died, ok := x.ifaceModel(iv, m, args, g, pos); ok {
			return r, died
		}
		fn := x.prog.LookupMethod(iv.T, m.Pkg(), m.Name())
		if fn == nil {
			x.fail("invoke: method %s not found on %v", m.Name(), iv.T)
		}
		return x.callFunc(fn, nil, append([]Value{iv.V}, args...), g, pos)
	case *IfaceGV:
		ra, da := x.invoke(iv.A, m, args, x.c.And(g, iv.G), pos)
		rb, db := x.invoke(iv.B, m, args, x.c.And(g, x.c.Not(iv.G)), pos)
		var r Value
		if ra != nil && rb != nil {
			r = x.merge(iv.G, ra, rb)
		}
		d := x.c.False
		if da != nil {
			d = x.c.Or(d, da)
		}
		if db != nil {
			d = x.c.Or(d, db)
		}
		return r, d
	}
	x.fail("invoke on %T (method %s)", recv, m.Name())
	return nil, nil
}

func (x *Exec) doGo(fr *Frame, t *ssa.Go, g *Term) {
	var args []Value
	for _, a := range t.Call.Args {
		args = append(args, x.eval(fr, a))
	}
	fv, ok := x.eval(fr, t.Call.Value).(*FuncV)
	if !ok {
		x.fail("go: unsupported callee")
	}
	switch x.goPolicy {
	case "inline":
		x.callFunc(fv.Fn, fv.Bind, args, g, t.Pos())
	case "spawn":
		x.spawned = append(x.spawned, &spawnedGo{fn: fv, args: args, g: g})
	case "ignore":
	default:
		x.fail("go statement reached without a goroutine policy (%s)", fv.Fn.String())
	}
}

func (x *Exec) builtin(fr *Frame, name string, cc *ssa.CallCommon, args []Value, g *Term, pos token.Pos) Value {
	c := x.c
	switch name {
	case "len":
		switch v := x.force(args[0]).(type) {
		case *SliceGV:
			var alts []sliceAlt
			x.sliceAlts(v, c.True, &alts)
			r := c.Const(64, 0)
			for _, al := range alts {
				if al.s.Base != nil {
					r = c.Ite(al.g, al.s.Len, r)
				}
			}
			return r
		case *SliceV:
			if v.Base == nil {
				return c.Const(64, 0)
			}
			return v.Len
		case *StrV:
			if v.Known {
				return c.Const(64, uint64(len(v.S)))
			}
			return v.Len
		case *ArrayV:
			return c.Const(64, uint64(len(v.E)))
		case *MapV:
			return x.mapLen(v)
		case *PtrV:
			at := cc.Args[0].Type().Underlying().(*types.Pointer).Elem().Underlying().(*types.Array)
			return c.Const(64, uint64(at.Len()))
		}
	case "cap":
		switch v := args[0].(type) {
		case *SliceGV:
			var alts []sliceAlt
			x.sliceAlts(v, c.True, &alts)
			r := c.Const(64, 0)
			for _, al := range alts {
				if al.s.Base != nil {
					r = c.Ite(al.g, al.s.Cap, r)
				}
			}
			return r
		case *SliceV:
			if v.Base == nil {
				return c.Const(64, 0)
			}
			return v.Cap
		}
	case "append":
		return x.appendOp(cc, args, g, pos)
	case "copy":
		return x.copyOp(args, g, pos)
	case "print", "println":
		return nil
	case "delete":
		x.mapDelete(args[0], args[1], g)
		return nil
	case "recover":
		return &IfaceV{}
	case "ssa:wrapnilchk":
		return args[0]
	}
	x.fail("unsupported builtin %s(%T)", name, args[0])
	return nil
}

func (x *Exec) appendOp(cc *ssa.CallCommon, args []Value, g *Term, pos token.Pos) Value {
	c := x.c
	s := args[0].(*SliceV)
	var addLen *Term
	var getElem func(i int) Value
	var nAdd int
	switch a := args[1].(type) {
	case *SliceV:
		if a.Base == nil {
			return s
		}
		if !a.Off.IsConst() {
			x.fail("append: appended slice with symbolic offset")
		}
		if !a.Len.IsConst() {
			// symbolic number of appended elements: bounded by the source's backing array; element i
			// is written under the guard i < len(src)
			arr, ok := x.force(x.load(a.Base)).(*ArrayV)
			if !ok || s.Base == nil {
				x.fail("append: appended slice with symbolic length needs small array backings")
			}
			maxN := len(arr.E) - int(a.Off.K)
			newLen := c.Add(s.Len, a.Len)
			fits := c.Ule(newLen, s.Cap)
			if !fits.IsTrue() {
				x.addOblig("append", "append-exceeds-capacity@"+x.posStr(pos), c.And(g, c.Not(fits)), pos)
			}
			for i := 0; i < maxN; i++ {
				gi := c.And(g, c.Ult(c.Const(64, uint64(i)), a.Len))
				if gi.IsFalse() {
					break
				}
				src := x.load(x.ptrExtend(a.Base, PathElem{Field: -1, Idx: c.Const(64, a.Off.K+uint64(i))}))
				p := x.ptrExtend(s.Base, PathElem{Field: -1, Idx: c.Add(c.Add(s.Off, s.Len), c.Const(64, uint64(i)))})
				x.store(p, src, gi)
			}
			return &SliceV{Base: s.Base, Off: s.Off, Len: newLen, Cap: s.Cap}
		}
		nAdd = int(a.Len.K)
		addLen = a.Len
		getElem = func(i int) Value {
			return x.load(x.ptrExtend(a.Base, PathElem{Field: -1, Idx: c.Const(64, a.Off.K+uint64(i))}))
		}
	case *StrV:
		if !a.Known {
			x.fail("append([]byte, symbolic string)")
		}
		nAdd = len(a.S)
		addLen = c.Const(64, uint64(nAdd))
		getElem = func(i int) Value { return c.Const(8, uint64(a.S[i])) }
	default:
		x.fail("append: %T", args[1])
	}
	if nAdd == 0 {
		return s
	}
	et := cc.Args[0].Type().Underlying().(*types.Slice).Elem()
	if s.Base == nil || (s.Cap.IsConst() && s.Len.IsConst() && s.Len.K+uint64(nAdd) > s.Cap.K) {
		// definitely reallocate: new backing array with concrete capacity
		oldLen := 0
		if s.Base != nil {
			oldLen = int(s.Len.K)
		}
		ncap := 2 * (oldLen + nAdd)
		if ncap < 8 {
			ncap = 8
		}
		e := make([]Value, ncap)
		z := x.zero(et)
		for i := range e {
			e[i] = z
		}
		for i := 0; i < oldLen; i++ {
			e[i] = x.load(x.ptrExtend(s.Base, PathElem{Field: -1, Idx: c.Add(s.Off, c.Const(64, uint64(i)))}))
		}
		for i := 0; i < nAdd; i++ {
			e[oldLen+i] = getElem(i)
		}
		o := x.newObject(types.NewArray(et, int64(ncap)), &ArrayV{E: e}, "append")
		return &SliceV{Base: &PtrV{Obj: o}, Off: c.Const(64, 0), Len: c.Const(64, uint64(oldLen+nAdd)), Cap: c.Const(64, uint64(ncap))}
	}
	newLen := c.Add(s.Len, addLen)
	fits := c.Ule(newLen, s.Cap)
	if !fits.IsTrue() {
		x.addOblig("append", "append-exceeds-capacity@"+x.posStr(pos), c.And(g, c.Not(fits)), pos)
	}
	for i := 0; i < nAdd; i++ {
		p := x.ptrExtend(s.Base, PathElem{Field: -1, Idx: c.Add(c.Add(s.Off, s.Len), c.Const(64, uint64(i)))})
		x.store(p, getElem(i), g)
	}
	return &SliceV{Base: s.Base, Off: s.Off, Len: newLen, Cap: s.Cap}
}

func (x *Exec) copyOp(args []Value, g *Term, pos token.Pos) Value {
	c := x.c
	dst := args[0].(*SliceV)
	var n *Term
	switch src := args[1].(type) {
	case *SliceV:
		if dst.Base == nil || src.Base == nil {
			return c.Const(64, 0)
		}
		n = c.Ite(c.Ult(dst.Len, src.Len), dst.Len, src.Len)
		if !n.IsConst() {
			// symbolic length: bounded by the smaller backing array; element i is copied under i < n
			// (all source elements are read before the first write: memmove semantics)
			maxN := -1
			for _, sl := range []*SliceV{dst, src} {
				if arr, ok := x.force(x.load(sl.Base)).(*ArrayV); ok && sl.Off.IsConst() {
					if m := len(arr.E) - int(sl.Off.K); maxN < 0 || m < maxN {
						maxN = m
					}
				} else {
					x.fail("copy with symbolic length needs small array backings with concrete offsets")
				}
			}
			type pair struct{ nv, ov Value }
			vals := make([]pair, maxN)
			for i := range vals {
				vals[i].nv = x.load(x.ptrExtend(src.Base, PathElem{Field: -1, Idx: c.Add(src.Off, c.Const(64, uint64(i)))}))
				vals[i].ov = x.load(x.ptrExtend(dst.Base, PathElem{Field: -1, Idx: c.Add(dst.Off, c.Const(64, uint64(i)))}))
			}
			for i := range vals {
				in := c.Ult(c.Const(64, uint64(i)), n)
				x.store(x.ptrExtend(dst.Base, PathElem{Field: -1, Idx: c.Add(dst.Off, c.Const(64, uint64(i)))}), x.merge(in, vals[i].nv, vals[i].ov), g)
			}
			return n
		}
		vals := make([]Value, n.K)
		for i := range vals {
			vals[i] = x.load(x.ptrExtend(src.Base, PathElem{Field: -1, Idx: c.Add(src.Off, c.Const(64, uint64(i)))}))
		}
		for i := range vals {
			x.store(x.ptrExtend(dst.Base, PathElem{Field: -1, Idx: c.Add(dst.Off, c.Const(64, uint64(i)))}), vals[i], g)
		}
		return n
	}
	x.fail("copy: unsupported source %T", args[1])
	return nil
}
