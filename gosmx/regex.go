package main

// Model of regexp.(*Regexp).MatchString over symbolic byte strings: the pattern (taken from the
// regexp.MustCompile("...") call that initialises the package-level variable in the real source)
// is compiled with the standard library's own regexp/syntax front end and the resulting NFA program
// is simulated over the symbolic bytes (one Boolean term per program counter and input position).
// Bound: ASCII bytes only (bytes >= 0x80 excluded by a recorded assumption), no \b assertions.

import (
	"regexp"
	"regexp/syntax"
	"strconv"
	"strings"
	"unicode"

	"golang.org/x/tools/go/ssa"
)

type RegexV struct {
	Pat  string
	prog *syntax.Prog
}

// regexGlobals maps package-level *regexp.Regexp variables to their pattern.
func (x *Exec) regexGlobals() map[*ssa.Global]string {
	if x.rxGlobals != nil {
		return x.rxGlobals
	}
	m := map[*ssa.Global]string{}
	for _, p := range x.prog.AllPackages() {
		init := p.Func("init")
		if init == nil {
			continue
		}
		for _, b := range init.Blocks {
			for _, in := range b.Instrs {
				st, ok := in.(*ssa.Store)
				if !ok {
					continue
				}
				g, ok := st.Addr.(*ssa.Global)
				if !ok {
					continue
				}
				call, ok := st.Val.(*ssa.Call)
				if !ok {
					continue
				}
				callee := call.Call.StaticCallee()
				if callee == nil || callee.Pkg == nil || callee.Pkg.Pkg.Path() != "regexp" || callee.Name() != "MustCompile" {
					continue
				}
				if k, ok := call.Call.Args[0].(*ssa.Const); ok && k.Value != nil {
					m[g] = constString(k)
				}
			}
		}
	}
	x.rxGlobals = m
	return m
}

func constString(k *ssa.Const) string {
	s := k.Value.ExactString()
	if u, err := strconv.Unquote(s); err == nil {
		return u
	}
	return s
}

func (x *Exec) regexMatch(rv *RegexV, s *StrV, g *Term) *Term {
	c := x.c
	s = x.strNormalize(s)
	if s.Known && x.opts["regex-force-nfa"] == "" {
		return c.Bool(regexp.MustCompile(rv.Pat).MatchString(s.S))
	}
	if rv.prog == nil {
		re, err := syntax.Parse(rv.Pat, syntax.Perl)
		if err != nil {
			x.fail("regexp model: cannot parse %q: %v", rv.Pat, err)
		}
		prog, err := syntax.Compile(re.Simplify())
		if err != nil {
			x.fail("regexp model: cannot compile %q: %v", rv.Pat, err)
		}
		rv.prog = prog
	}
	prog := rv.prog
	x.modeled["regexp.MatchString(symbolic): NFA simulation of the real pattern "+strings.ReplaceAll(rv.Pat, "\n", "\\n")+" (ASCII bytes)"]++
	ss := x.strSym(s)
	n := len(ss.B)
	for i := 0; i < n; i++ {
		x.asciiAssume(ss.B[i], c.And(g, c.Ult(c.Const(64, uint64(i)), ss.Len)))
	}
	matched := c.False
	closure := func(pos int, seeds []*Term) []*Term {
		act := make([]*Term, len(prog.Inst))
		for i := range act {
			act[i] = c.False
		}
		atEnd := c.Eq(ss.Len, c.Const(64, uint64(pos)))
		depth := 0
		var add func(pc uint32, cond *Term)
		add = func(pc uint32, cond *Term) {
			if cond.IsFalse() {
				return
			}
			depth++
			if depth > 100000 {
				x.fail("regexp model: epsilon closure does not terminate for %q", rv.Pat)
			}
			nc := c.Or(act[pc], cond)
			if nc == act[pc] {
				return
			}
			act[pc] = nc
			in := &prog.Inst[pc]
			switch in.Op {
			case syntax.InstAlt, syntax.InstAltMatch:
				add(in.Out, cond)
				add(in.Arg, cond)
			case syntax.InstCapture, syntax.InstNop:
				add(in.Out, cond)
			case syntax.InstEmptyWidth:
				ec := c.True
				op := syntax.EmptyOp(in.Arg)
				if op&syntax.EmptyBeginText != 0 {
					ec = c.And(ec, c.Bool(pos == 0))
				}
				if op&syntax.EmptyBeginLine != 0 {
					if pos > 0 {
						ec = c.And(ec, c.Eq(ss.B[pos-1], c.Const(8, '\n')))
					}
				}
				if op&syntax.EmptyEndText != 0 {
					ec = c.And(ec, atEnd)
				}
				if op&syntax.EmptyEndLine != 0 {
					e2 := atEnd
					if pos < n {
						e2 = c.Or(e2, c.Eq(ss.B[pos], c.Const(8, '\n')))
					}
					ec = c.And(ec, e2)
				}
				if op&(syntax.EmptyWordBoundary|syntax.EmptyNoWordBoundary) != 0 {
					x.fail("regexp model: \\b not supported (%q)", rv.Pat)
				}
				add(in.Out, c.And(cond, ec))
			}
		}
		for pc, t := range seeds {
			add(uint32(pc), t)
		}
		// unanchored search: the program may start at every existing position
		add(uint32(prog.Start), c.Ule(c.Const(64, uint64(pos)), ss.Len))
		return act
	}
	seeds := make([]*Term, len(prog.Inst))
	for i := range seeds {
		seeds[i] = c.False
	}
	for pos := 0; pos <= n; pos++ {
		act := closure(pos, seeds)
		next := make([]*Term, len(prog.Inst))
		for i := range next {
			next[i] = c.False
		}
		for pc := range prog.Inst {
			a := act[pc]
			if a.IsFalse() {
				continue
			}
			in := &prog.Inst[pc]
			switch in.Op {
			case syntax.InstMatch:
				matched = c.Or(matched, a)
			case syntax.InstRune, syntax.InstRune1, syntax.InstRuneAny, syntax.InstRuneAnyNotNL:
				if pos >= n {
					continue
				}
				has := c.Ult(c.Const(64, uint64(pos)), ss.Len)
				next[in.Out] = c.Or(next[in.Out], c.And(a, c.And(has, x.runeCond(in, ss.B[pos]))))
			}
		}
		seeds = next
	}
	return matched
}

func (x *Exec) runeCond(in *syntax.Inst, b *Term) *Term {
	c := x.c
	eq := func(r rune) *Term {
		if r < 0 || r >= 128 {
			return c.False
		}
		return c.Eq(b, c.Const(8, uint64(r)))
	}
	switch in.Op {
	case syntax.InstRuneAny:
		return c.True
	case syntax.InstRuneAnyNotNL:
		return c.Ne(b, c.Const(8, '\n'))
	case syntax.InstRune1:
		return eq(in.Rune[0])
	}
	fold := syntax.Flags(in.Arg)&syntax.FoldCase != 0
	if len(in.Rune) == 1 {
		r := in.Rune[0]
		m := eq(r)
		if fold {
			for f := unicode.SimpleFold(r); f != r; f = unicode.SimpleFold(f) {
				m = c.Or(m, eq(f))
			}
		}
		return m
	}
	m := c.False
	for i := 0; i+1 < len(in.Rune); i += 2 {
		lo, hi := in.Rune[i], in.Rune[i+1]
		if lo >= 128 {
			continue
		}
		if hi >= 128 {
			hi = 127
		}
		if lo == hi {
			m = c.Or(m, eq(lo))
		} else {
			m = c.Or(m, c.And(c.Ule(c.Const(8, uint64(lo)), b), c.Ule(b, c.Const(8, uint64(hi)))))
		}
	}
	return m
}
