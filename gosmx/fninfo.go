package main

// Per-function static information: RPO, natural loops, live-out values, bit-scan loop pattern.

import (
	"go/types"
	"sort"
	"sync"

	"golang.org/x/tools/go/ssa"
)

type Loop struct {
	Header  *ssa.BasicBlock
	Blocks  map[int]bool
	Parent  *Loop
	LiveOut []ssa.Value
	// bit-scan pattern: for bb != 0 { sq := bb.PopLsb(); ... }
	BitScan     bool
	BitScanAddr ssa.Value // the *Bitboard the loop scans
}

type FnInfo struct {
	Fn       *ssa.Function
	RPO      []*ssa.BasicBlock
	RPOIdx   []int
	LoopOf   []*Loop // innermost loop containing block i (nil if none)
	HeaderOf map[int]*Loop
	ValIdx   map[ssa.Value]int
	NVals    int
}

var (
	fnInfoMu    sync.Mutex
	fnInfoCache = map[*ssa.Function]*FnInfo{}
)

func getFnInfo(fn *ssa.Function) *FnInfo {
	fnInfoMu.Lock()
	defer fnInfoMu.Unlock()
	if fi, ok := fnInfoCache[fn]; ok {
		return fi
	}
	fi := buildFnInfo(fn)
	fnInfoCache[fn] = fi
	return fi
}

func buildFnInfo(fn *ssa.Function) *FnInfo {
	fi := &FnInfo{Fn: fn, ValIdx: map[ssa.Value]int{}, HeaderOf: map[int]*Loop{}}
	n := len(fn.Blocks)
	// value numbering
	for _, p := range fn.Params {
		fi.ValIdx[p] = fi.NVals
		fi.NVals++
	}
	for _, p := range fn.FreeVars {
		fi.ValIdx[p] = fi.NVals
		fi.NVals++
	}
	for _, b := range fn.Blocks {
		for _, in := range b.Instrs {
			if v, ok := in.(ssa.Value); ok {
				fi.ValIdx[v] = fi.NVals
				fi.NVals++
			}
		}
	}
	if n == 0 {
		return fi
	}
	// RPO via DFS
	visited := make([]bool, n)
	var post []*ssa.BasicBlock
	var dfs func(b *ssa.BasicBlock)
	dfs = func(b *ssa.BasicBlock) {
		visited[b.Index] = true
		for _, s := range b.Succs {
			if !visited[s.Index] {
				dfs(s)
			}
		}
		post = append(post, b)
	}
	dfs(fn.Blocks[0])
	fi.RPOIdx = make([]int, n)
	for i := range fi.RPOIdx {
		fi.RPOIdx[i] = -1
	}
	for i := len(post) - 1; i >= 0; i-- {
		fi.RPOIdx[post[i].Index] = len(fi.RPO)
		fi.RPO = append(fi.RPO, post[i])
	}
	// natural loops
	byHeader := map[int]*Loop{}
	for _, b := range fn.Blocks {
		if fi.RPOIdx[b.Index] < 0 {
			continue
		}
		for _, h := range b.Succs {
			if h.Dominates(b) { // back edge b -> h
				l := byHeader[h.Index]
				if l == nil {
					l = &Loop{Header: h, Blocks: map[int]bool{h.Index: true}}
					byHeader[h.Index] = l
				}
				// reverse DFS from b
				stack := []*ssa.BasicBlock{b}
				for len(stack) > 0 {
					c := stack[len(stack)-1]
					stack = stack[:len(stack)-1]
					if l.Blocks[c.Index] {
						continue
					}
					l.Blocks[c.Index] = true
					for _, p := range c.Preds {
						if fi.RPOIdx[p.Index] >= 0 {
							stack = append(stack, p)
						}
					}
				}
			}
		}
	}
	var loops []*Loop
	for _, l := range byHeader {
		loops = append(loops, l)
	}
	sort.Slice(loops, func(i, j int) bool { return len(loops[i].Blocks) < len(loops[j].Blocks) })
	fi.LoopOf = make([]*Loop, n)
	for i, l := range loops {
		fi.HeaderOf[l.Header.Index] = l
		for j := i + 1; j < len(loops); j++ {
			if loops[j].Blocks[l.Header.Index] && loops[j] != l {
				l.Parent = loops[j]
				break
			}
		}
	}
	for _, l := range loops { // smallest first → innermost wins
		for bi := range l.Blocks {
			if fi.LoopOf[bi] == nil {
				fi.LoopOf[bi] = l
			}
		}
	}
	// live-out values
	for _, l := range loops {
		seen := map[ssa.Value]bool{}
		for bi := range l.Blocks {
			for _, in := range fn.Blocks[bi].Instrs {
				v, ok := in.(ssa.Value)
				if !ok {
					continue
				}
				refs := v.Referrers()
				if refs == nil {
					continue
				}
				for _, r := range *refs {
					rb := r.Block()
					if rb == nil {
						continue
					}
					out := !l.Blocks[rb.Index]
					if phi, isPhi := r.(*ssa.Phi); isPhi {
						// a phi reads its operand on the incoming edge: the use is outside the loop iff
						// the edge's source block is (an exit path may run through blocks outside the loop
						// before it reaches the phi: the value must then survive later iterations)
						out = false
						for i, e := range phi.Edges {
							if e == v && !l.Blocks[rb.Preds[i].Index] {
								out = true
							}
						}
					}
					if !out {
						continue
					}
					if !seen[v] {
						seen[v] = true
						l.LiveOut = append(l.LiveOut, v)
					}
				}
			}
		}
		detectBitScan(fi, l)
	}
	return fi
}

func isBitboardPtr(t types.Type) bool {
	p, ok := t.Underlying().(*types.Pointer)
	if !ok {
		return false
	}
	nt, ok := p.Elem().(*types.Named)
	return ok && nt.Obj().Name() == "Bitboard"
}

// detectBitScan recognises   for *addr != 0 { ... (*Bitboard).PopLsb(addr) ... }
// where addr is a loop-invariant *Bitboard (an Alloc outside the loop), the header only loads and
// compares, and inside the loop *addr is modified by nothing but PopLsb (no stores, not passed to
// other calls).
func detectBitScan(fi *FnInfo, l *Loop) {
	h := l.Header
	if len(h.Instrs) < 3 {
		return
	}
	ifi, ok := h.Instrs[len(h.Instrs)-1].(*ssa.If)
	if !ok {
		return
	}
	cmp, ok := ifi.Cond.(*ssa.BinOp)
	if !ok || cmp.Op.String() != "!=" {
		return
	}
	ld, ok := cmp.X.(*ssa.UnOp)
	if !ok || ld.Op.String() != "*" {
		return
	}
	k, ok := cmp.Y.(*ssa.Const)
	if !ok || k.Value == nil || k.Value.ExactString() != "0" {
		return
	}
	addr := ld.X
	if !isBitboardPtr(addr.Type()) {
		return
	}
	// header: only phis, loads, compare, if
	for _, in := range h.Instrs {
		switch v := in.(type) {
		case *ssa.Phi, *ssa.If, *ssa.DebugRef:
		case *ssa.UnOp:
			if v.Op.String() != "*" {
				return
			}
		case *ssa.BinOp:
		default:
			return
		}
	}
	// loop exits through the header must leave the loop on the false branch
	if !l.Blocks[h.Succs[0].Index] || l.Blocks[h.Succs[1].Index] {
		return
	}
	// addr defined outside the loop
	if in, ok := addr.(ssa.Instruction); ok {
		if in.Block() != nil && l.Blocks[in.Block().Index] {
			return
		}
	}
	pops := 0
	for bi := range l.Blocks {
		for _, in := range fi.Fn.Blocks[bi].Instrs {
			switch v := in.(type) {
			case *ssa.Store:
				if v.Addr == addr {
					return
				}
			case *ssa.Call:
				callee := v.Call.StaticCallee()
				usesAddr := false
				for _, a := range v.Call.Args {
					if a == addr {
						usesAddr = true
					}
				}
				if usesAddr {
					if callee == nil || callee.Name() != "PopLsb" || len(v.Call.Args) != 1 {
						return
					}
					pops++
				}
			case *ssa.MakeClosure:
				for _, b := range v.Bindings {
					if b == addr {
						return
					}
				}
			case *ssa.Defer, *ssa.Go:
				return
			}
		}
	}
	if pops != 1 {
		return
	}
	l.BitScan = true
	l.BitScanAddr = addr
}
