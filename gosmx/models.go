package main

// Library models: strings/strconv helpers, strings.Builder, maps, range iteration.

import (
	"go/token"
	"go/types"
	"strconv"
	"strings"

	"golang.org/x/tools/go/ssa"
)

// ---------- range over strings ----------

type RangeState struct {
	Str *StrV
	Pos *Term // BV64 next index
	Map *MapV
}

func (x *Exec) rangeInit(fr *Frame, t *ssa.Range) Value {
	v := x.eval(fr, t.X)
	switch s := v.(type) {
	case *StrV:
		o := x.newObject(nil, &RangeState{Str: s, Pos: x.c.Const(64, 0)}, "range")
		return &PtrV{Obj: o}
	}
	x.fail("range over %T not supported", v)
	return nil
}

func (x *Exec) rangeNext(fr *Frame, t *ssa.Next, g *Term) Value {
	c := x.c
	it := x.eval(fr, t.Iter).(*PtrV)
	rs := it.Obj.Val.(*RangeState)
	if t.IsString {
		ss := x.strSym(rs.Str)
		ok := c.Ult(rs.Pos, ss.Len)
		ch := x.strIndexNoCheck(ss, rs.Pos)
		// ASCII only: bytes >= 0x80 are outside the bound (recorded as assumption obligation)
		x.asciiAssume(ch, c.And(g, ok))
		key := rs.Pos
		// the iterator is private to its loop and a later Next only runs on paths on which this one ran,
		// so the advance need not be guarded by the path condition (keeps Pos concrete)
		it.Obj.Val = &RangeState{Str: rs.Str, Pos: c.Ite(ok, c.Add(rs.Pos, c.Const(64, 1)), rs.Pos)}
		return &TupleV{E: []Value{ok, key, c.ZeroExt(ch, 24)}}
	}
	x.fail("range/next over maps not supported")
	return nil
}

func (x *Exec) asciiAssume(ch *Term, g *Term) {
	c := x.c
	bad := c.And(g, c.Not(c.Ult(ch, c.Const(8, 0x80))))
	if bad.IsFalse() {
		return
	}
	x.modeled["range over string: bytes >= 0x80 excluded by assumption (ASCII-only bound)"]++
	x.assumes = append(x.assumes, c.Not(bad))
}

func (x *Exec) strIndexNoCheck(ss *StrV, idx *Term) *Term {
	c := x.c
	if idx.IsConst() {
		if idx.K < uint64(len(ss.B)) {
			return ss.B[idx.K]
		}
		return c.Const(8, 0)
	}
	r := c.Const(8, 0)
	for i := len(ss.B) - 1; i >= 0; i-- {
		r = c.Ite(c.Eq(idx, c.Const(64, uint64(i))), ss.B[i], r)
	}
	return r
}

// ---------- maps (finite association lists with symbolic keys) ----------

type MapEntry struct {
	Present *Term
	Key     Value
	Val     Value
}

type MapState struct {
	KeyT, ValT types.Type
	Entries    []MapEntry
	// Base: optional uninterpreted initial contents (SMT arrays) for scalar key/flat value maps
	BasePresent *Term // Array key->BV1
	BaseLeaves  []*Term
}

func (x *Exec) makeMap(t types.Type) Value {
	mt := t.Underlying().(*types.Map)
	o := x.newObject(t, &MapState{KeyT: mt.Key(), ValT: mt.Elem()}, "map")
	return &MapV{Obj: o}
}

func (x *Exec) mapState(m Value) *MapState {
	mv, ok := m.(*MapV)
	if !ok || mv.Obj == nil {
		return nil
	}
	return mv.Obj.Val.(*MapState)
}

func (x *Exec) mapUpdate(m, k, v Value, g *Term) {
	mv := m.(*MapV)
	if mv.Obj == nil {
		x.runtimeCheck("assignment-to-nil-map", g, x.c.True, x.curPos)
		return
	}
	ms := mv.Obj.Val.(*MapState)
	c := x.c
	ns := &MapState{KeyT: ms.KeyT, ValT: ms.ValT, BasePresent: ms.BasePresent, BaseLeaves: ms.BaseLeaves}
	found := c.False
	for _, e := range ms.Entries {
		same := c.And(e.Present, x.equal(e.Key, k, ms.KeyT))
		hit := c.And(g, same)
		ns.Entries = append(ns.Entries, MapEntry{Present: e.Present, Key: e.Key, Val: x.merge(hit, v, e.Val)})
		found = c.Or(found, same)
	}
	add := c.And(g, c.Not(found))
	if !add.IsFalse() {
		ns.Entries = append(ns.Entries, MapEntry{Present: add, Key: k, Val: v})
	}
	mv.Obj.Val = ns
}

func (x *Exec) mapDelete(m, k Value, g *Term) {
	mv := m.(*MapV)
	if mv.Obj == nil {
		return
	}
	ms := mv.Obj.Val.(*MapState)
	c := x.c
	if ms.BasePresent != nil {
		x.fail("delete on map with symbolic base not supported")
	}
	ns := &MapState{KeyT: ms.KeyT, ValT: ms.ValT}
	for _, e := range ms.Entries {
		same := c.And(e.Present, x.equal(e.Key, k, ms.KeyT))
		ns.Entries = append(ns.Entries, MapEntry{Present: c.And(e.Present, c.Not(c.And(g, same))), Key: e.Key, Val: e.Val})
	}
	mv.Obj.Val = ns
}

func (x *Exec) mapLen(m *MapV) *Term {
	c := x.c
	if m.Obj == nil {
		return c.Const(64, 0)
	}
	ms := m.Obj.Val.(*MapState)
	if ms.BasePresent != nil {
		x.fail("len of map with symbolic base not supported")
	}
	n := c.Const(64, 0)
	for _, e := range ms.Entries {
		n = c.Add(n, c.Ite(e.Present, c.Const(64, 1), c.Const(64, 0)))
	}
	return n
}

func (x *Exec) mapLookup(m, k Value) (Value, *Term) {
	c := x.c
	mv := m.(*MapV)
	var vt types.Type
	if mv.Obj == nil {
		x.fail("lookup in nil map: element type unknown here")
	}
	ms := mv.Obj.Val.(*MapState)
	vt = ms.ValT
	var res Value = x.zero(vt)
	found := c.False
	if ms.BasePresent != nil {
		kt := k.(*Term)
		found = x.bvToBool(c.Select(ms.BasePresent, kt))
		tmp := &SymArrV{Elem: vt, Len: c.Const(64, 0), Leaves: ms.BaseLeaves}
		res = x.merge(found, x.symArrLoad(tmp, kt), res)
	}
	for _, e := range ms.Entries {
		same := c.And(e.Present, x.equal(e.Key, k, ms.KeyT))
		res = x.merge(same, e.Val, res)
		found = c.Or(found, same)
	}
	return res, found
}

func (x *Exec) lookup(fr *Frame, t *ssa.Lookup, g *Term) Value {
	base := x.eval(fr, t.X)
	switch bv := base.(type) {
	case *StrV:
		return x.strIndex(bv, x.idx64(fr, t.Index), g, t.Pos())
	case *MapV:
		if bv.Obj == nil {
			zt := t.X.Type().Underlying().(*types.Map).Elem()
			if t.CommaOk {
				return &TupleV{E: []Value{x.zero(zt), x.c.False}}
			}
			return x.zero(zt)
		}
		v, ok := x.mapLookup(bv, x.eval(fr, t.Index))
		if t.CommaOk {
			return &TupleV{E: []Value{v, ok}}
		}
		return v
	}
	x.fail("lookup on %T", base)
	return nil
}

// ---------- library models ----------

func (x *Exec) ifaceModel(iv *IfaceV, m *types.Func, args []Value, g *Term, pos token.Pos) (Value, *Term, bool) {
	if m.Name() == "Error" {
		return x.opaqueString(), nil, true
	}
	return nil, nil, false
}

func (x *Exec) concreteStrFn(name string, args []Value) (string, bool) {
	for _, a := range args {
		s, ok := a.(*StrV)
		if !ok {
			return "", false
		}
		if !x.strNormalize(s).Known {
			return "", false
		}
	}
	return name, true
}

func ks(v Value) string { return v.(*StrV).S }

func (x *Exec) libModel(fn *ssa.Function, pkg, short, name string, args []Value, g *Term, site token.Pos) (Value, *Term, bool) {
	c := x.c
	for i, a := range args {
		if s, ok := a.(*StrV); ok {
			args[i] = x.strNormalize(s)
		}
	}
	allKnown := func(idx ...int) bool {
		for _, i := range idx {
			s, ok := args[i].(*StrV)
			if !ok || !s.Known {
				return false
			}
		}
		return true
	}
	errT := types.Universe.Lookup("error").Type()
	switch pkg {
	case "strings":
		switch name {
		case "strings.TrimSpace":
			if allKnown(0) {
				return &StrV{Known: true, S: strings.TrimSpace(ks(args[0]))}, nil, true
			}
			return x.trimSpaceSym(args[0].(*StrV), g), nil, true
		case "strings.ToUpper":
			if allKnown(0) {
				return &StrV{Known: true, S: strings.ToUpper(ks(args[0]))}, nil, true
			}
		case "strings.ToLower":
			if allKnown(0) {
				return &StrV{Known: true, S: strings.ToLower(ks(args[0]))}, nil, true
			}
		case "strings.HasPrefix":
			if allKnown(0, 1) {
				return c.Bool(strings.HasPrefix(ks(args[0]), ks(args[1]))), nil, true
			}
		case "strings.Contains":
			if allKnown(0, 1) {
				return c.Bool(strings.Contains(ks(args[0]), ks(args[1]))), nil, true
			}
		case "strings.Index":
			if allKnown(0, 1) {
				return c.Const(64, uint64(int64(strings.Index(ks(args[0]), ks(args[1]))))), nil, true
			}
			if r := x.indexSym(args[0].(*StrV), args[1].(*StrV)); r != nil {
				return r, nil, true
			}
		case "strings.Split", "strings.Fields":
			if allKnown(0) && (short == "Fields" || allKnown(1)) {
				var parts []string
				if short == "Fields" {
					parts = strings.Fields(ks(args[0]))
				} else {
					parts = strings.Split(ks(args[0]), ks(args[1]))
				}
				return x.strSlice(parts), nil, true
			}
			if short == "Split" && allKnown(1) && len(ks(args[1])) == 1 {
				return x.splitSym(args[0].(*StrV), ks(args[1])[0], false, g), nil, true
			}
			if short == "Fields" {
				return x.splitSym(args[0].(*StrV), ' ', true, g), nil, true
			}
		case "strings.Join":
			if sl, ok := args[0].(*SliceV); ok && sl.Len.IsConst() && allKnown(1) {
				out := &StrV{Known: true}
				for i := 0; i < int(sl.Len.K); i++ {
					if i > 0 {
						out = x.strConcat(out, args[1].(*StrV))
					}
					e := x.load(x.ptrExtend(sl.Base, PathElem{Field: -1, Idx: c.Add(sl.Off, c.Const(64, uint64(i)))})).(*StrV)
					out = x.strConcat(out, e)
				}
				return out, nil, true
			}
		case "(*strings.Builder).WriteString":
			p := args[0]
			cur := x.load(x.ptrExtend(p, PathElem{Field: 0}))
			s, ok := cur.(*StrV)
			if !ok {
				s = &StrV{Known: true}
			}
			ns := x.strConcat(s, args[1].(*StrV))
			x.builderSet(p, ns, g)
			return &TupleV{E: []Value{c.Const(64, 0), &IfaceV{}}}, nil, true
		case "(*strings.Builder).String":
			cur := x.load(x.ptrExtend(args[0], PathElem{Field: 0}))
			if s, ok := cur.(*StrV); ok {
				return s, nil, true
			}
			return &StrV{Known: true}, nil, true
		}
	case "regexp":
		if name == "(*regexp.Regexp).MatchString" {
			if pv, ok := args[0].(*PtrV); ok && pv.Obj != nil {
				if rv, ok := pv.Obj.Val.(*RegexV); ok {
					return x.regexMatch(rv, args[1].(*StrV), g), nil, true
				}
			}
			x.fail("regexp.MatchString: receiver is not a package-level MustCompile'd pattern")
		}
	case "strconv":
		switch name {
		case "strconv.Itoa":
			if t, ok := args[0].(*Term); ok && t.IsConst() {
				return &StrV{Known: true, S: strconv.Itoa(int(t.SignedVal()))}, nil, true
			}
			x.modeled["strconv.Itoa(symbolic): opaque string"]++
			return x.opaqueString(), nil, true
		case "strconv.Atoi":
			if allKnown(0) {
				n, err := strconv.Atoi(ks(args[0]))
				var e Value = &IfaceV{}
				if err != nil {
					e = &IfaceV{T: errT, V: x.opaqueString()}
				}
				return &TupleV{E: []Value{c.Const(64, uint64(int64(n))), e}}, nil, true
			}
			return x.atoiSym(args[0].(*StrV)), nil, true
		case "strconv.ParseBool":
			if allKnown(0) {
				b, err := strconv.ParseBool(ks(args[0]))
				var e Value = &IfaceV{}
				if err != nil {
					e = &IfaceV{T: errT, V: x.opaqueString()}
				}
				return &TupleV{E: []Value{c.Bool(b), e}}, nil, true
			}
			{
				sv := args[0].(*StrV)
				isT, isF := c.False, c.False
				for _, lit := range []string{"1", "t", "T", "TRUE", "true", "True"} {
					isT = c.Or(isT, x.strEq(sv, &StrV{Known: true, S: lit}))
				}
				for _, lit := range []string{"0", "f", "F", "FALSE", "false", "False"} {
					isF = c.Or(isF, x.strEq(sv, &StrV{Known: true, S: lit}))
				}
				x.modeled["strconv.ParseBool(symbolic): the twelve literals of the Go documentation"]++
				ok := c.Or(isT, isF)
				return &TupleV{E: []Value{isT, &IfaceGV{G: ok, A: &IfaceV{}, B: &IfaceV{T: errT, V: x.opaqueString()}}}}, nil, true
			}
		case "strconv.ParseInt":
			if b, ok := args[1].(*Term); ok && b.IsConst() && b.K == 10 {
				if bs, ok := args[2].(*Term); ok && bs.IsConst() && bs.K == 64 {
					if allKnown(0) {
						n, err := strconv.ParseInt(ks(args[0]), 10, 64)
						var e Value = &IfaceV{}
						if err != nil {
							e = &IfaceV{T: errT, V: x.opaqueString()}
						}
						return &TupleV{E: []Value{c.Const(64, uint64(n)), e}}, nil, true
					}
					return x.atoiSym(args[0].(*StrV)), nil, true
				}
			}
		}
	}
	return nil, nil, false
}

// builderSet stores the accumulated string in field 0 of a strings.Builder (we reuse the `addr`
// field slot, which our model never reads otherwise, to hold a StrV).
func (x *Exec) builderSet(p Value, s *StrV, g *Term) {
	fp := x.ptrExtend(p, PathElem{Field: 0})
	old := x.load(fp)
	if _, ok := old.(*StrV); !ok {
		// first write: replace the zero *Builder pointer field by a string cell
		x.storeRaw(fp, &StrV{Known: true})
	}
	x.store(fp, s, g)
}

// storeRaw overwrites a cell without merging (used to retype a model cell).
func (x *Exec) storeRaw(p Value, v Value) {
	pv := p.(*PtrV)
	pv.Obj.Val = x.setRaw(pv.Obj.Val, pv.Path, v)
}

func (x *Exec) setRaw(old Value, path []PathElem, v Value) Value {
	if len(path) == 0 {
		return v
	}
	old = x.force(old)
	pe := path[0]
	if pe.Field >= 0 {
		sv := old.(*StructV)
		f := append([]Value(nil), sv.F...)
		f[pe.Field] = x.setRaw(sv.F[pe.Field], path[1:], v)
		return &StructV{F: f}
	}
	av := old.(*ArrayV)
	e := append([]Value(nil), av.E...)
	e[pe.Idx.K] = x.setRaw(e[pe.Idx.K], path[1:], v)
	return &ArrayV{E: e}
}

func (x *Exec) strSlice(parts []string) *SliceV {
	c := x.c
	e := make([]Value, len(parts))
	for i, p := range parts {
		e[i] = &StrV{Known: true, S: p}
	}
	st := types.Typ[types.String]
	o := x.newObject(types.NewArray(st, int64(len(e))), &ArrayV{E: e}, "strslice")
	n := c.Const(64, uint64(len(e)))
	return &SliceV{Base: &PtrV{Obj: o}, Off: c.Const(64, 0), Len: n, Cap: n}
}

// atoiSym models strconv.Atoi on a symbolic string of at most 9 bytes: optional sign, 1..9 digits.
func (x *Exec) atoiSym(s *StrV) Value {
	c := x.c
	ss := x.strSym(s)
	errT := types.Universe.Lookup("error").Type()
	x.modeled["strconv.Atoi/ParseInt(symbolic): decimal model, optional sign, <=9 digits; longer strings: arbitrary value or error"]++
	n := len(ss.B)
	long := c.False
	if n > 10 {
		// strings longer than 10 bytes: outcome unconstrained (sound over-approximation)
		long = c.Ult(c.Const(64, 10), ss.Len)
		n = 10
	}
	isDigit := func(b *Term) *Term {
		return c.And(c.Ule(c.Const(8, '0'), b), c.Ule(b, c.Const(8, '9')))
	}
	var first *Term = c.Const(8, 0)
	if n > 0 {
		first = ss.B[0]
	}
	neg := c.And(c.Ult(c.Const(64, 0), ss.Len), c.Eq(first, c.Const(8, '-')))
	plus := c.And(c.Ult(c.Const(64, 0), ss.Len), c.Eq(first, c.Const(8, '+')))
	signed := c.Or(neg, plus)
	start := c.Ite(signed, c.Const(64, 1), c.Const(64, 0))
	ok := c.Ult(start, ss.Len) // at least one digit
	val := c.Const(64, 0)
	for i := 0; i < n; i++ {
		in := c.And(c.Ule(start, c.Const(64, uint64(i))), c.Ult(c.Const(64, uint64(i)), ss.Len))
		d := c.ZeroExt(c.Sub(ss.B[i], c.Const(8, '0')), 56)
		val = c.Ite(in, c.Add(c.Mul(val, c.Const(64, 10)), d), val)
		ok = c.And(ok, c.Implies(in, isDigit(ss.B[i])))
	}
	val = c.Ite(neg, c.Neg(val), val)
	if !long.IsFalse() {
		ok = c.Ite(long, c.Fresh("atoi.long.ok", BoolSort), ok)
		val = c.Ite(long, c.Fresh("atoi.long.val", BV(64)), val)
	}
	val = c.Ite(ok, val, c.Const(64, 0))
	return &TupleV{E: []Value{val, &IfaceGV{G: ok, A: &IfaceV{}, B: &IfaceV{T: errT, V: x.opaqueString()}}}}
}

func isSpaceByte(c *Ctx, b *Term) *Term {
	r := c.Eq(b, c.Const(8, ' '))
	for _, k := range []byte{'\t', '\n', '\v', '\f', '\r'} {
		r = c.Or(r, c.Eq(b, c.Const(8, uint64(k))))
	}
	return r
}

// trimSpaceSym: strings.TrimSpace on a symbolic string is the identity under the recorded assumption
// that its first and last byte are not ASCII white space (leading/trailing white space is outside the
// bound; harnesses place white space concretely where they want it).
func (x *Exec) trimSpaceSym(s *StrV, g *Term) Value {
	c := x.c
	ss := x.strSym(s)
	n := len(ss.B)
	if n == 0 {
		return s
	}
	x.modeled["strings.TrimSpace(symbolic): identity; first/last byte assumed not white space"]++
	// concrete white space at the ends of a string of concrete length is really stripped
	if ss.Len.IsConst() {
		isWS := func(b *Term) bool { return b.IsConst() && (b.K == ' ' || (b.K >= 9 && b.K <= 13)) }
		lo, hi := 0, int(ss.Len.K)
		for lo < hi && isWS(ss.B[lo]) {
			lo++
		}
		for hi > lo && isWS(ss.B[hi-1]) {
			hi--
		}
		if lo > 0 || hi < int(ss.Len.K) {
			t := &StrV{Len: c.Const(64, uint64(hi-lo)), B: append([]*Term(nil), ss.B[lo:hi]...)}
			return x.trimSpaceSym(x.strNormalize(t), g)
		}
	}
	nonEmpty := c.And(g, c.Ult(c.Const(64, 0), ss.Len))
	if fb := ss.B[0]; !fb.IsConst() {
		x.assumes = append(x.assumes, c.Implies(nonEmpty, c.Not(isSpaceByte(c, fb))))
	} else if fb.K == ' ' || (fb.K >= 9 && fb.K <= 13) {
		x.fail("TrimSpace(symbolic) with concrete leading white space")
	}
	last := x.strIndexNoCheck(ss, c.Sub(ss.Len, c.Const(64, 1)))
	if !last.IsConst() {
		x.assumes = append(x.assumes, c.Implies(nonEmpty, c.Not(isSpaceByte(c, last))))
	} else if last.K == ' ' || (last.K >= 9 && last.K <= 13) {
		x.fail("TrimSpace(symbolic) with concrete trailing white space")
	}
	return s
}

// splitSym: strings.Split(s, sep) / strings.Fields(s) for a string of concrete length whose separator
// positions are concrete: symbolic bytes are assumed (recorded) not to be separators.
func (x *Exec) splitSym(s *StrV, sep byte, fields bool, g *Term) Value {
	c := x.c
	ss := x.strSym(x.strNormalize(s))
	if !ss.Len.IsConst() {
		x.fail("strings.Split/Fields(symbolic): length must be concrete")
	}
	n := int(ss.Len.K)
	x.modeled["strings.Split/Fields(symbolic): separators only at concrete positions; symbolic bytes assumed not to be separators"]++
	var parts []Value
	cur := &StrV{Len: c.Const(64, 0)}
	flush := func() {
		cur.Len = c.Const(64, uint64(len(cur.B)))
		if !(fields && len(cur.B) == 0) {
			parts = append(parts, x.strNormalize(cur))
		}
		cur = &StrV{Len: c.Const(64, 0)}
	}
	for i := 0; i < n; i++ {
		b := ss.B[i]
		if b.IsConst() {
			isSep := byte(b.K) == sep
			if fields {
				isSep = b.K == ' ' || (b.K >= 9 && b.K <= 13)
			}
			if isSep {
				flush()
				continue
			}
		} else if fields {
			x.assumes = append(x.assumes, c.Implies(g, c.Not(isSpaceByte(c, b))))
		} else {
			x.assumes = append(x.assumes, c.Implies(g, c.Ne(b, c.Const(8, uint64(sep)))))
		}
		cur.B = append(cur.B, b)
	}
	flush()
	st := types.Typ[types.String]
	o := x.newObject(types.NewArray(st, int64(len(parts))), &ArrayV{E: parts}, "strslice")
	ln := c.Const(64, uint64(len(parts)))
	if len(parts) == 0 {
		return &SliceV{Off: c.Const(64, 0), Len: ln, Cap: ln}
	}
	return &SliceV{Base: &PtrV{Obj: o}, Off: c.Const(64, 0), Len: ln, Cap: ln}
}

// indexSym: strings.Index(hay, needle) for a needle of concrete length and a haystack of concrete length.
func (x *Exec) indexSym(hay, needle *StrV) Value {
	c := x.c
	h, nd := x.strSym(x.strNormalize(hay)), x.strSym(x.strNormalize(needle))
	if !h.Len.IsConst() || !nd.Len.IsConst() {
		return nil
	}
	hn, nn := int(h.Len.K), int(nd.Len.K)
	r := c.Const(64, ^uint64(0))
	for i := hn - nn; i >= 0; i-- {
		m := c.True
		for j := 0; j < nn; j++ {
			m = c.And(m, c.Eq(h.B[i+j], nd.B[j]))
		}
		r = c.Ite(m, c.Const(64, uint64(i)), r)
	}
	return r
}
