package main

// Loading /repo with in-package harness overlays, building SSA, and dumping package-level tables
// natively (after the real init() ran) for use as initial global state.

import (
	"bytes"
	"crypto/sha256"
	"encoding/gob"
	"encoding/hex"
	"encoding/json"
	"fmt"
	"go/types"
	"os"
	"os/exec"
	"path/filepath"
	"sort"
	"strings"

	"golang.org/x/tools/go/packages"
	"golang.org/x/tools/go/ssa"
	"golang.org/x/tools/go/ssa/ssautil"
)

var repoDir = "/repo"
const modPath = "github.com/frankkopp/FrankyGo"

var verifDir = "/verif"

type DumpNode struct {
	K             byte // 'u' scalar, 's' string, 'a' aggregate, 'A' compact scalar array, 'l' slice, 'n' unsupported
	U             uint64
	S             string
	C             []DumpNode
	Big           []uint64
	Ref           int
	Off, Len, Cap int
}

type PkgDump struct {
	Vars     map[string]DumpNode
	Backings []DumpNode
}

type Loaded struct {
	Prog      *ssa.Program
	Pkgs      []*packages.Package
	SSAPkgs   map[string]*ssa.Package // by package path
	Dumps     map[string]*PkgDump     // by package path
	Overlay   map[string][]byte
	HarnessFn map[string]*ssa.Function // VH_* functions by name
	SrcHash   string
}

// harnessOverlay maps /verif/harness/<pkg>/*.go to /repo/internal/<pkg>/<file> and adds the
// intrinsic declarations (body-less for symbolic execution, with bodies for native replay).
func harnessOverlay(native bool) (map[string][]byte, error) {
	ov := map[string][]byte{}
	hdir := filepath.Join(verifDir, "harness")
	ents, err := os.ReadDir(hdir)
	if err != nil {
		return nil, err
	}
	tmplName := "intrinsics_sym.go.txt"
	if native {
		tmplName = "intrinsics_native.go.txt"
	}
	tmpl, err := os.ReadFile(filepath.Join(hdir, "_vx", tmplName))
	if err != nil {
		return nil, err
	}
	if native {
		ov[filepath.Join(repoDir, "internal", "vxhook", "vxhook.go")] = []byte(vxhookSrc)
	}
	for _, e := range ents {
		if !e.IsDir() || strings.HasPrefix(e.Name(), "_") {
			continue
		}
		pkg := e.Name()
		files, _ := os.ReadDir(filepath.Join(hdir, pkg))
		n := 0
		for _, f := range files {
			if !strings.HasSuffix(f.Name(), ".go") {
				continue
			}
			if strings.HasSuffix(f.Name(), "_test.go") && !native {
				continue
			}
			b, err := os.ReadFile(filepath.Join(hdir, pkg, f.Name()))
			if err != nil {
				return nil, err
			}
			ov[filepath.Join(repoDir, "internal", pkg, f.Name())] = b
			n++
		}
		if n > 0 {
			src := strings.Replace(string(tmpl), "package PKG", "package "+pkgNameOf(pkg), 1)
			ov[filepath.Join(repoDir, "internal", pkg, "zz_vx_intrinsics.go")] = []byte(src)
		}
	}
	return ov, nil
}

func pkgNameOf(dir string) string { return dir }

func repoSourceHash(ov map[string][]byte) string {
	h := sha256.New()
	var files []string
	filepath.Walk(repoDir, func(p string, info os.FileInfo, err error) error {
		if err != nil {
			return nil
		}
		if info.IsDir() {
			if info.Name() == ".git" || info.Name() == "Releases" || info.Name() == "docs" {
				return filepath.SkipDir
			}
			return nil
		}
		if strings.HasSuffix(p, ".go") || strings.HasSuffix(p, "go.mod") {
			files = append(files, p)
		}
		return nil
	})
	sort.Strings(files)
	for _, f := range files {
		b, _ := os.ReadFile(f)
		fmt.Fprintf(h, "%s %d\n", f, len(b))
		h.Write(b)
	}
	var keys []string
	for k := range ov {
		keys = append(keys, k)
	}
	sort.Strings(keys)
	for _, k := range keys {
		fmt.Fprintf(h, "%s %d\n", k, len(ov[k]))
		h.Write(ov[k])
	}
	return hex.EncodeToString(h.Sum(nil))[:24]
}

func goEnv() []string {
	env := os.Environ()
	env = append(env, "GOFLAGS=-mod=mod", "GOPROXY=off", "GOSUMDB=off", "GOTOOLCHAIN=local")
	return env
}

func LoadRepo(needDump []string) (*Loaded, error) {
	ov, err := harnessOverlay(false)
	if err != nil {
		return nil, err
	}
	cfg := &packages.Config{
		Mode:    packages.LoadAllSyntax,
		Dir:     repoDir,
		Overlay: ov,
		Env:     goEnv(),
	}
	pkgs, err := packages.Load(cfg, "./internal/...")
	if err != nil {
		return nil, err
	}
	nerr := 0
	packages.Visit(pkgs, nil, func(p *packages.Package) {
		for _, e := range p.Errors {
			if strings.Contains(e.Msg, "missing function body") {
				continue
			}
			if strings.HasPrefix(p.PkgPath, modPath) {
				fmt.Fprintf(os.Stderr, "load error: %s: %v\n", p.PkgPath, e)
				nerr++
			}
		}
	})
	if nerr > 0 {
		return nil, fmt.Errorf("%d package load errors (does /repo compile with the harness overlay?)", nerr)
	}
	prog, spkgs := ssautil.AllPackages(pkgs, ssa.InstantiateGenerics)
	prog.Build()
	ld := &Loaded{Prog: prog, Pkgs: pkgs, SSAPkgs: map[string]*ssa.Package{}, Dumps: map[string]*PkgDump{},
		Overlay: ov, HarnessFn: map[string]*ssa.Function{}}
	for _, sp := range spkgs {
		if sp == nil {
			continue
		}
		ld.SSAPkgs[sp.Pkg.Path()] = sp
		for name, m := range sp.Members {
			if fn, ok := m.(*ssa.Function); ok && strings.HasPrefix(name, "VH_") {
				ld.HarnessFn[name] = fn
			}
		}
	}
	ld.SrcHash = repoSourceHash(ov)
	if err := ld.loadDumps(needDump); err != nil {
		return nil, err
	}
	return ld, nil
}

// ---------- native table dump ----------

func cacheDir() string {
	d := filepath.Join(verifDir, ".cache")
	os.MkdirAll(d, 0o755)
	return d
}

func (ld *Loaded) loadDumps(pkgDirs []string) error {
	var todo []string
	for _, pd := range pkgDirs {
		path := modPath + "/internal/" + pd
		cf := filepath.Join(cacheDir(), fmt.Sprintf("dump-%s-%s.gob", pd, ld.SrcHash))
		if b, err := os.ReadFile(cf); err == nil {
			var d PkgDump
			if gob.NewDecoder(bytes.NewReader(b)).Decode(&d) == nil {
				ld.Dumps[path] = &d
				continue
			}
		}
		todo = append(todo, pd)
	}
	if len(todo) == 0 {
		return nil
	}
	// remove stale dumps
	if ents, err := os.ReadDir(cacheDir()); err == nil {
		for _, e := range ents {
			if strings.HasPrefix(e.Name(), "dump-") && !strings.Contains(e.Name(), ld.SrcHash) {
				os.Remove(filepath.Join(cacheDir(), e.Name()))
			}
		}
	}
	tmp, err := os.MkdirTemp("", "vxdump")
	if err != nil {
		return err
	}
	defer os.RemoveAll(tmp)
	ovj := map[string]map[string]string{"Replace": {}}
	var pats []string
	for _, pd := range todo {
		sp := ld.SSAPkgs[modPath+"/internal/"+pd]
		if sp == nil {
			return fmt.Errorf("dump: package %s not loaded", pd)
		}
		var names []string
		for name, m := range sp.Members {
			if g, ok := m.(*ssa.Global); ok {
				if strings.Contains(name, "$") || name == "_" || strings.HasPrefix(name, "vx") || strings.HasPrefix(name, "Vx") {
					continue // harness-declared globals do not exist in the native dump build
				}
				if dumpable(g.Type().(*types.Pointer).Elem(), 0) {
					names = append(names, name)
				}
			}
		}
		sort.Strings(names)
		src := genDumpTest(sp.Pkg.Name(), pd, names)
		f := filepath.Join(tmp, pd+"_zz_vxdump_test.go")
		if err := os.WriteFile(f, []byte(src), 0o644); err != nil {
			return err
		}
		ovj["Replace"][filepath.Join(repoDir, "internal", pd, "zz_vxdump_test.go")] = f
		pats = append(pats, "./internal/"+pd+"/")
	}
	// harness overlay files must be present too (they may declare globals); write them out
	for k, v := range ld.Overlay {
		f := filepath.Join(tmp, strings.ReplaceAll(strings.TrimPrefix(k, repoDir+"/"), "/", "__"))
		// the symbolic intrinsics file has body-less functions: not compilable natively → skip all harness files
		_ = v
		_ = f
	}
	ovb, _ := json.Marshal(ovj)
	ovf := filepath.Join(tmp, "overlay.json")
	os.WriteFile(ovf, ovb, 0o644)
	args := append([]string{"test", "-vet=off", "-count=1", "-overlay", ovf, "-run", "^TestZZVxDump$"}, pats...)
	cmd := exec.Command("go", args...)
	cmd.Dir = repoDir
	cmd.Env = append(goEnv(), "VX_DUMP_DIR="+tmp)
	out, err := cmd.CombinedOutput()
	if err != nil {
		return fmt.Errorf("table dump failed: %v\n%s", err, out)
	}
	for _, pd := range todo {
		b, err := os.ReadFile(filepath.Join(tmp, pd2file(pd)))
		if err != nil {
			return fmt.Errorf("dump for %s missing: %v\n%s", pd, err, out)
		}
		var d PkgDump
		if err := gob.NewDecoder(bytes.NewReader(b)).Decode(&d); err != nil {
			return err
		}
		ld.Dumps[modPath+"/internal/"+pd] = &d
		os.WriteFile(filepath.Join(cacheDir(), fmt.Sprintf("dump-%s-%s.gob", pd, ld.SrcHash)), b, 0o644)
	}
	return nil
}

func pd2file(pd string) string { return "dump_" + pd + ".gob" }

func dumpable(t types.Type, depth int) bool {
	if depth > 6 {
		return false
	}
	switch u := t.Underlying().(type) {
	case *types.Basic:
		return u.Info()&(types.IsInteger|types.IsBoolean|types.IsFloat|types.IsString) != 0
	case *types.Array:
		return dumpable(u.Elem(), depth+1)
	case *types.Slice:
		return dumpable(u.Elem(), depth+1)
	case *types.Struct:
		for i := 0; i < u.NumFields(); i++ {
			if !dumpable(u.Field(i).Type(), depth+1) {
				return false
			}
		}
		return true
	}
	return false
}

func (ld *Loaded) dumpLookup(g *ssa.Global) *DumpNode {
	if g.Pkg == nil {
		return nil
	}
	d := ld.Dumps[g.Pkg.Pkg.Path()]
	if d == nil {
		return nil
	}
	if n, ok := d.Vars[g.Name()]; ok {
		return &n
	}
	return nil
}

func genDumpTest(pkgName, pkgDir string, names []string) string {
	var b strings.Builder
	b.WriteString("package " + pkgName + "\n\n")
	b.WriteString(`import (
	"encoding/gob"
	"math"
	"os"
	"path/filepath"
	"reflect"
	"sort"
	"testing"
	"unsafe"
)

type zzDumpNode struct {
	K             byte
	U             uint64
	S             string
	C             []zzDumpNode
	Big           []uint64
	Ref           int
	Off, Len, Cap int
}

type zzPkgDump struct {
	Vars     map[string]zzDumpNode
	Backings []zzDumpNode
}

type zzRegion struct {
	lo, hi uintptr
	et     reflect.Type
	id     int
}

var zzRegions []zzRegion

func zzCollect(v reflect.Value) {
	switch v.Kind() {
	case reflect.Array:
		if k := v.Type().Elem().Kind(); k == reflect.Struct || k == reflect.Array || k == reflect.Slice {
			for i := 0; i < v.Len(); i++ {
				zzCollect(v.Index(i))
			}
		}
	case reflect.Struct:
		for i := 0; i < v.NumField(); i++ {
			zzCollect(v.Field(i))
		}
	case reflect.Slice:
		if v.IsNil() || v.Cap() == 0 {
			return
		}
		lo := v.Pointer()
		hi := lo + uintptr(v.Cap())*v.Type().Elem().Size()
		zzRegions = append(zzRegions, zzRegion{lo: lo, hi: hi, et: v.Type().Elem()})
	}
}

func zzMerge() {
	sort.Slice(zzRegions, func(i, j int) bool { return zzRegions[i].lo < zzRegions[j].lo })
	var out []zzRegion
	for _, r := range zzRegions {
		if n := len(out); n > 0 && r.lo < out[n-1].hi && r.et == out[n-1].et {
			if r.hi > out[n-1].hi {
				out[n-1].hi = r.hi
			}
			continue
		}
		out = append(out, r)
	}
	for i := range out {
		out[i].id = i
	}
	zzRegions = out
}

func zzScalar(v reflect.Value) (uint64, bool) {
	switch v.Kind() {
	case reflect.Bool:
		if v.Bool() {
			return 1, true
		}
		return 0, true
	case reflect.Int, reflect.Int8, reflect.Int16, reflect.Int32, reflect.Int64:
		return uint64(v.Int()), true
	case reflect.Uint, reflect.Uint8, reflect.Uint16, reflect.Uint32, reflect.Uint64, reflect.Uintptr:
		return v.Uint(), true
	case reflect.Float64, reflect.Float32:
		return math.Float64bits(v.Float()), true
	}
	return 0, false
}

func zzDump(v reflect.Value) zzDumpNode {
	if u, ok := zzScalar(v); ok {
		return zzDumpNode{K: 'u', U: u}
	}
	switch v.Kind() {
	case reflect.String:
		return zzDumpNode{K: 's', S: v.String()}
	case reflect.Array:
		if v.Len() > 0 {
			if _, ok := zzScalar(v.Index(0)); ok {
				n := zzDumpNode{K: 'A', Big: make([]uint64, v.Len())}
				for i := 0; i < v.Len(); i++ {
					n.Big[i], _ = zzScalar(v.Index(i))
				}
				return n
			}
		}
		n := zzDumpNode{K: 'a'}
		for i := 0; i < v.Len(); i++ {
			n.C = append(n.C, zzDump(v.Index(i)))
		}
		return n
	case reflect.Struct:
		n := zzDumpNode{K: 'a'}
		for i := 0; i < v.NumField(); i++ {
			n.C = append(n.C, zzDump(v.Field(i)))
		}
		return n
	case reflect.Slice:
		if v.IsNil() || v.Cap() == 0 {
			return zzDumpNode{K: 'l', Ref: -1}
		}
		p := v.Pointer()
		for _, r := range zzRegions {
			if p >= r.lo && p < r.hi && r.et == v.Type().Elem() {
				return zzDumpNode{K: 'l', Ref: r.id, Off: int((p - r.lo) / v.Type().Elem().Size()), Len: v.Len(), Cap: v.Cap()}
			}
		}
	}
	return zzDumpNode{K: 'n'}
}

func zzBacking(r zzRegion) zzDumpNode {
	n := int((r.hi - r.lo) / r.et.Size())
	arr := reflect.NewAt(reflect.ArrayOf(n, r.et), unsafe.Pointer(r.lo)).Elem()
	return zzDump(arr)
}

func TestZZVxDump(t *testing.T) {
	dir := os.Getenv("VX_DUMP_DIR")
	if dir == "" {
		t.Skip("no VX_DUMP_DIR")
	}
	vars := map[string]reflect.Value{
`)
	for _, n := range names {
		fmt.Fprintf(&b, "\t\t%q: reflect.ValueOf(&%s).Elem(),\n", n, n)
	}
	b.WriteString(`	}
	for _, v := range vars {
		zzCollect(v)
	}
	zzMerge()
	d := zzPkgDump{Vars: map[string]zzDumpNode{}}
	for name, v := range vars {
		d.Vars[name] = zzDump(v)
	}
	for _, r := range zzRegions {
		d.Backings = append(d.Backings, zzBacking(r))
	}
	f, err := os.Create(filepath.Join(dir, "dump_` + pkgDir + `.gob"))
	if err != nil {
		t.Fatal(err)
	}
	defer f.Close()
	if err := gob.NewEncoder(f).Encode(&d); err != nil {
		t.Fatal(err)
	}
}
`)
	return b.String()
}

const vxhookSrc = `package vxhook

var hooks = map[string]interface{}{}

func Set(name string, f interface{}) { hooks[name] = f }
func Get(name string) (interface{}, bool) {
	f, ok := hooks[name]
	return f, ok
}
`
