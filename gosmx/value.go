package main

// Symbolic Go values and the memory model (persistent value trees, guarded writes).

import (
	"fmt"
	"go/types"

	"golang.org/x/tools/go/ssa"
)

type Value interface{}

type StructV struct{ F []Value }
type ArrayV struct{ E []Value }

// SymArrV is a large array represented as one SMT array (idx BV64) per scalar leaf of the element type.
type SymArrV struct {
	Elem   types.Type
	Len    *Term // BV64 (may be symbolic for make([]T, n))
	Leaves []*Term
}

// BigConstV is a large constant table of scalars (from the native dump of package-level tables).
type BigConstV struct {
	Elem types.Type
	W    int
	Data []uint64
}

// RawV is a lazily expanded node of the native table dump.
type RawV struct {
	N   *DumpNode
	Typ types.Type
	Pkg string
}

type PathElem struct {
	Field int   // >=0: struct field
	Idx   *Term // Field == -1: array index (BV64)
}

type PtrV struct {
	Obj  *Object // nil => nil pointer
	Path []PathElem
}

type PtrAlt struct {
	G *Term
	P *PtrV
}

// PtrSetV is a guarded choice between pointers (result of merging different pointers).
type PtrSetV struct{ Alts []PtrAlt }

type SliceV struct {
	Base          *PtrV // pointer to the backing array value; nil => nil slice
	Off, Len, Cap *Term // BV64
}

type StrV struct {
	Known bool
	S     string
	Len   *Term   // BV64, when !Known
	B     []*Term // BV8 bytes, len(B) = max length, when !Known
}

type FuncV struct {
	Fn   *ssa.Function
	Bind []Value
	Name string // builtin name when Fn == nil
}

type IfaceV struct {
	T types.Type // nil => nil interface
	V Value
}

type TupleV struct{ E []Value }

type MapV struct{ Obj *Object } // Obj.Val is *MapState; nil Obj => nil map

type Object struct {
	ID    int
	Typ   types.Type
	Val   Value
	Name  string
	Birth *Term // guard under which the object was allocated (nil: always exists)
}

// relGuard strips the object's birth guard from a store guard: the object only exists on paths
// where Birth holds, so ite(Birth ∧ c, v, old) may be written ite(c, v, old).
func (x *Exec) relGuard(g *Term, o *Object) *Term {
	if o.Birth == nil || o.Birth.IsTrue() {
		return g
	}
	return x.stripConj(g, o.Birth, 0)
}

func (x *Exec) stripConj(g, b *Term, depth int) *Term {
	if g == b {
		return x.c.True
	}
	if b.Op == OAnd && depth < 40 {
		// strip each conjunct of b
		g = x.stripConj(g, b.A[0], depth+1)
		g = x.stripConj(g, b.A[1], depth+1)
		return g
	}
	if g.Op == OAnd && depth < 40 {
		a0 := x.stripConj(g.A[0], b, depth+1)
		a1 := x.stripConj(g.A[1], b, depth+1)
		if a0 != g.A[0] || a1 != g.A[1] {
			return x.c.And(a0, a1)
		}
	}
	return g
}

var nilPtr = &PtrV{}

func isNilPtr(v Value) bool {
	p, ok := v.(*PtrV)
	return ok && p.Obj == nil
}

const bigArrayThreshold = 160

func (x *Exec) sortOfBasic(b *types.Basic) (Sort, bool) {
	switch b.Kind() {
	case types.Bool, types.UntypedBool:
		return BoolSort, true
	case types.Int8, types.Uint8:
		return BV(8), true
	case types.Int16, types.Uint16:
		return BV(16), true
	case types.Int32, types.Uint32, types.UntypedRune:
		return BV(32), true
	case types.Int, types.Uint, types.Int64, types.Uint64, types.Uintptr, types.UntypedInt:
		return BV(64), true
	case types.Float64, types.UntypedFloat:
		return FP64, true
	}
	return Sort{}, false
}

func isSigned(t types.Type) bool {
	if b, ok := t.Underlying().(*types.Basic); ok {
		return b.Info()&types.IsUnsigned == 0 && b.Info()&types.IsInteger != 0
	}
	return false
}

func isInteger(t types.Type) bool {
	b, ok := t.Underlying().(*types.Basic)
	return ok && b.Info()&types.IsInteger != 0
}

func isFloat(t types.Type) bool {
	b, ok := t.Underlying().(*types.Basic)
	return ok && b.Info()&types.IsFloat != 0
}

func isString(t types.Type) bool {
	b, ok := t.Underlying().(*types.Basic)
	return ok && b.Info()&types.IsString != 0
}

func (x *Exec) scalarSort(t types.Type) (Sort, bool) {
	if b, ok := t.Underlying().(*types.Basic); ok {
		return x.sortOfBasic(b)
	}
	return Sort{}, false
}

func (x *Exec) zero(t types.Type) Value {
	c := x.c
	switch u := t.Underlying().(type) {
	case *types.Basic:
		if u.Info()&types.IsString != 0 {
			return &StrV{Known: true}
		}
		s, ok := x.sortOfBasic(u)
		if !ok {
			x.fail("zero: unsupported basic type %v", t)
		}
		switch s.K {
		case SBool:
			return c.False
		case SFP:
			return c.FpFromBits(c.Const(64, 0))
		}
		return c.Const(s.W, 0)
	case *types.Struct:
		f := make([]Value, u.NumFields())
		for i := range f {
			f[i] = x.zero(u.Field(i).Type())
		}
		return &StructV{F: f}
	case *types.Array:
		n := int(u.Len())
		if n > bigArrayThreshold {
			return x.zeroSymArr(u.Elem(), c.Const(64, uint64(n)))
		}
		e := make([]Value, n)
		if n > 0 {
			z := x.zero(u.Elem())
			for i := range e {
				e[i] = z
			}
		}
		return &ArrayV{E: e}
	case *types.Pointer:
		return nilPtr
	case *types.Slice:
		return &SliceV{}
	case *types.Map:
		return &MapV{}
	case *types.Signature:
		return &FuncV{}
	case *types.Interface:
		return &IfaceV{}
	case *types.Chan:
		return nilPtr
	}
	x.fail("zero: unsupported type %v", t)
	return nil
}

// ---- leaves of a flat type (for SymArrV) ----

type leafInfo struct {
	Path []int // field / concrete array indices
	Sort Sort
}

func (x *Exec) leaves(t types.Type) []leafInfo {
	var out []leafInfo
	var rec func(t types.Type, path []int)
	rec = func(t types.Type, path []int) {
		switch u := t.Underlying().(type) {
		case *types.Basic:
			s, ok := x.sortOfBasic(u)
			if !ok || s.K == SFP {
				x.fail("leaves: unsupported leaf type %v", t)
			}
			out = append(out, leafInfo{Path: append([]int(nil), path...), Sort: s})
		case *types.Struct:
			for i := 0; i < u.NumFields(); i++ {
				rec(u.Field(i).Type(), append(path, i))
			}
		case *types.Array:
			if u.Len() > bigArrayThreshold {
				x.fail("leaves: nested big array %v", t)
			}
			for i := 0; i < int(u.Len()); i++ {
				rec(u.Elem(), append(path, i))
			}
		default:
			x.fail("leaves: unsupported element type %v in big array", t)
		}
	}
	rec(t, nil)
	return out
}

func (x *Exec) zeroSymArr(elem types.Type, n *Term) *SymArrV {
	ls := x.leaves(elem)
	a := &SymArrV{Elem: elem, Len: n}
	for _, l := range ls {
		w := l.Sort.W
		if l.Sort.K == SBool {
			w = 1
		}
		a.Leaves = append(a.Leaves, x.c.ConstArr(64, x.c.Const(w, 0)))
	}
	return a
}

func (x *Exec) freshSymArr(name string, elem types.Type, n *Term) *SymArrV {
	ls := x.leaves(elem)
	a := &SymArrV{Elem: elem, Len: n}
	for i, l := range ls {
		w := l.Sort.W
		if l.Sort.K == SBool {
			w = 1
		}
		a.Leaves = append(a.Leaves, x.c.Var(fmt.Sprintf("%s.L%d", name, i), ArrSort(64, w)))
	}
	return a
}

func (x *Exec) boolToBV(t *Term) *Term { return x.c.Ite(t, x.c.Const(1, 1), x.c.Const(1, 0)) }
func (x *Exec) bvToBool(t *Term) *Term { return x.c.Eq(t, x.c.Const(1, 1)) }

// symArrLoad builds the element value at idx.
func (x *Exec) symArrLoad(a *SymArrV, idx *Term) Value {
	ls := x.leaves(a.Elem)
	k := 0
	var build func(t types.Type) Value
	build = func(t types.Type) Value {
		switch u := t.Underlying().(type) {
		case *types.Basic:
			v := x.c.Select(a.Leaves[k], idx)
			if ls[k].Sort.K == SBool {
				v = x.bvToBool(v)
			}
			k++
			return v
		case *types.Struct:
			f := make([]Value, u.NumFields())
			for i := range f {
				f[i] = build(u.Field(i).Type())
			}
			return &StructV{F: f}
		case *types.Array:
			e := make([]Value, int(u.Len()))
			for i := range e {
				e[i] = build(u.Elem())
			}
			return &ArrayV{E: e}
		}
		panic("symArrLoad")
	}
	return build(a.Elem)
}

// symArrStore returns a new SymArrV with element idx replaced by v under guard g.
func (x *Exec) symArrStore(a *SymArrV, idx *Term, v Value, g *Term) *SymArrV {
	ls := x.leaves(a.Elem)
	n := &SymArrV{Elem: a.Elem, Len: a.Len, Leaves: append([]*Term(nil), a.Leaves...)}
	k := 0
	var rec func(v Value)
	rec = func(v Value) {
		switch u := v.(type) {
		case *Term:
			t := u
			if ls[k].Sort.K == SBool {
				t = x.boolToBV(t)
			}
			if !g.IsTrue() {
				t = x.c.Ite(g, t, x.c.Select(n.Leaves[k], idx))
			}
			n.Leaves[k] = x.c.Store(n.Leaves[k], idx, t)
			k++
		case *StructV:
			for _, f := range u.F {
				rec(f)
			}
		case *ArrayV:
			for _, e := range u.E {
				rec(e)
			}
		default:
			x.fail("symArrStore: unsupported value %T", v)
		}
	}
	rec(x.force(v))
	return n
}

// force expands a RawV one level.
func (x *Exec) force(v Value) Value {
	r, ok := v.(*RawV)
	if !ok {
		return v
	}
	return x.expandRaw(r)
}

// merge returns ite(g, a, b) over value trees.
func (x *Exec) merge(g *Term, a, b Value) Value {
	if g.IsTrue() {
		return a
	}
	if g.IsFalse() {
		return b
	}
	if a == b {
		return a
	}
	if b == nil {
		return a
	}
	if a == nil {
		return b
	}
	a, b = x.force(a), x.force(b)
	switch av := a.(type) {
	case *Term:
		bv, ok := b.(*Term)
		if !ok {
			x.fail("merge: %T vs %T", a, b)
		}
		return x.c.Ite(g, av, bv)
	case *StructV:
		bv := b.(*StructV)
		f := make([]Value, len(av.F))
		for i := range f {
			f[i] = x.merge(g, av.F[i], bv.F[i])
		}
		return &StructV{F: f}
	case *ArrayV:
		bv, ok := b.(*ArrayV)
		if !ok {
			x.fail("merge: ArrayV vs %T", b)
		}
		e := make([]Value, len(av.E))
		for i := range e {
			e[i] = x.merge(g, av.E[i], bv.E[i])
		}
		return &ArrayV{E: e}
	case *SymArrV:
		bv, ok := b.(*SymArrV)
		if !ok {
			x.fail("merge: SymArrV vs %T", b)
		}
		n := &SymArrV{Elem: av.Elem, Len: x.c.Ite(g, av.Len, bv.Len)}
		for i := range av.Leaves {
			n.Leaves = append(n.Leaves, x.c.Ite(g, av.Leaves[i], bv.Leaves[i]))
		}
		return n
	case *TupleV:
		bv := b.(*TupleV)
		e := make([]Value, len(av.E))
		for i := range e {
			e[i] = x.merge(g, av.E[i], bv.E[i])
		}
		return &TupleV{E: e}
	case *PtrV, *PtrSetV:
		return x.mergePtr(g, a, b)
	case *SliceV:
		if bg, ok := b.(*SliceGV); ok {
			return &SliceGV{G: g, A: av, B: bg}
		}
		bv := b.(*SliceV)
		if av.Base == nil && bv.Base == nil {
			return av
		}
		z := x.c.Const(64, 0)
		fix := func(s *SliceV) *SliceV {
			if s.Base == nil {
				return &SliceV{Off: z, Len: z, Cap: z}
			}
			return s
		}
		a2, b2 := fix(av), fix(bv)
		var base *PtrV
		switch {
		case av.Base == nil:
			base = bv.Base
		case bv.Base == nil:
			base = av.Base
		case samePtr(av.Base, bv.Base):
			base = av.Base
		default:
			return &SliceGV{G: g, A: av, B: bv}
		}
		// a nil slice merged with a non-nil one keeps len 0 on the nil side; nil-ness itself is lost
		return &SliceV{Base: base, Off: x.c.Ite(g, a2.Off, b2.Off), Len: x.c.Ite(g, a2.Len, b2.Len), Cap: x.c.Ite(g, a2.Cap, b2.Cap)}
	case *SliceGV:
		return &SliceGV{G: g, A: a, B: b}
	case *StrV:
		bv := b.(*StrV)
		if av.Known && bv.Known && av.S == bv.S {
			return av
		}
		sa, sb := x.strSym(av), x.strSym(bv)
		n := len(sa.B)
		if len(sb.B) > n {
			n = len(sb.B)
		}
		out := &StrV{Len: x.c.Ite(g, sa.Len, sb.Len)}
		z := x.c.Const(8, 0)
		for i := 0; i < n; i++ {
			ba, bb := z, z
			if i < len(sa.B) {
				ba = sa.B[i]
			}
			if i < len(sb.B) {
				bb = sb.B[i]
			}
			out.B = append(out.B, x.c.Ite(g, ba, bb))
		}
		return out
	case *FuncV:
		bv := b.(*FuncV)
		if av.Fn == bv.Fn && len(av.Bind) == len(bv.Bind) {
			nb := make([]Value, len(av.Bind))
			for i := range nb {
				nb[i] = x.merge(g, av.Bind[i], bv.Bind[i])
			}
			return &FuncV{Fn: av.Fn, Bind: nb, Name: av.Name}
		}
		x.fail("merge: different functions")
	case *IfaceV:
		if _, isG := b.(*IfaceGV); isG {
			return &IfaceGV{G: g, A: a, B: b}
		}
		bv := b.(*IfaceV)
		if av.T == nil && bv.T == nil {
			return av
		}
		if av.T != nil && bv.T != nil && types.Identical(av.T, bv.T) {
			return &IfaceV{T: av.T, V: x.merge(g, av.V, bv.V)}
		}
		// nil vs non-nil interface: represent with a guard
		return &IfaceGV{G: g, A: av, B: bv}
	case *IfaceGV:
		return &IfaceGV{G: g, A: a, B: b}
	case *MapV:
		bv := b.(*MapV)
		if av.Obj == bv.Obj {
			return av
		}
		// different map objects: a fresh object holding the guarded union of their entries (aliasing
		// with the originals is not tracked; nil merges as empty)
		ns := &MapState{}
		add := func(m *MapV, cond *Term) {
			if m.Obj == nil {
				return
			}
			ms := m.Obj.Val.(*MapState)
			ns.KeyT, ns.ValT = ms.KeyT, ms.ValT
			if ms.BasePresent != nil {
				x.fail("merge: maps with symbolic base")
			}
			for _, e := range ms.Entries {
				ns.Entries = append(ns.Entries, MapEntry{Present: x.c.And(cond, e.Present), Key: e.Key, Val: e.Val})
			}
		}
		add(av, g)
		add(bv, x.c.Not(g))
		x.modeled["merge of two different map objects: guarded union in a fresh object (aliasing not tracked)"]++
		return &MapV{Obj: x.newObject(nil, ns, "merged-map")}
	}
	x.fail("merge: unsupported %T", a)
	return nil
}

// SliceGV is a guarded choice between two slices with different backing arrays.
type SliceGV struct {
	G    *Term
	A, B Value // *SliceV or *SliceGV
}

// sliceAlts flattens a slice value into guarded plain slices.
func (x *Exec) sliceAlts(v Value, g *Term, out *[]sliceAlt) {
	switch t := v.(type) {
	case *SliceV:
		*out = append(*out, sliceAlt{g, t})
	case *SliceGV:
		x.sliceAlts(t.A, x.c.And(g, t.G), out)
		x.sliceAlts(t.B, x.c.And(g, x.c.Not(t.G)), out)
	default:
		x.fail("sliceAlts: %T", v)
	}
}

type sliceAlt struct {
	g *Term
	s *SliceV
}

// IfaceGV is a guarded choice between two interface values (e.g. error nil / non-nil).
type IfaceGV struct {
	G    *Term
	A, B Value
}

func samePtr(a, b *PtrV) bool {
	if a.Obj != b.Obj || len(a.Path) != len(b.Path) {
		return false
	}
	for i := range a.Path {
		if a.Path[i].Field != b.Path[i].Field || a.Path[i].Idx != b.Path[i].Idx {
			return false
		}
	}
	return true
}

func ptrStr(p *PtrV) string {
	if p == nil || p.Obj == nil {
		return "nil"
	}
	return fmt.Sprintf("obj%d(%s)%v", p.Obj.ID, p.Obj.Name, len(p.Path))
}

func (x *Exec) mergePtr(g *Term, a, b Value) Value {
	pa, oka := a.(*PtrV)
	pb, okb := b.(*PtrV)
	if oka && okb {
		if samePtr(pa, pb) {
			return pa
		}
		// same object & shape, differing only in index terms: merge indices
		if pa.Obj != nil && pa.Obj == pb.Obj && len(pa.Path) == len(pb.Path) {
			ok := true
			np := make([]PathElem, len(pa.Path))
			for i := range pa.Path {
				ea, eb := pa.Path[i], pb.Path[i]
				if ea.Field != eb.Field {
					ok = false
					break
				}
				if ea.Field == -1 {
					np[i] = PathElem{Field: -1, Idx: x.c.Ite(g, ea.Idx, eb.Idx)}
				} else {
					np[i] = ea
				}
			}
			if ok {
				return &PtrV{Obj: pa.Obj, Path: np}
			}
		}
	}
	var alts []PtrAlt
	add := func(cond *Term, v Value) {
		switch p := v.(type) {
		case *PtrV:
			alts = append(alts, PtrAlt{G: cond, P: p})
		case *PtrSetV:
			for _, al := range p.Alts {
				alts = append(alts, PtrAlt{G: x.c.And(cond, al.G), P: al.P})
			}
		default:
			x.fail("mergePtr: %T", v)
		}
	}
	add(g, a)
	add(x.c.Not(g), b)
	return &PtrSetV{Alts: alts}
}

// ---------- memory access ----------

func (x *Exec) newObject(t types.Type, v Value, name string) *Object {
	x.nobj++
	return &Object{ID: x.nobj, Typ: t, Val: v, Name: name}
}

func (x *Exec) load(p Value) Value {
	switch pv := p.(type) {
	case *PtrV:
		if pv.Obj == nil {
			x.fail("load through nil pointer (should have been guarded by a nil check)")
		}
		return x.force(x.get(pv.Obj.Val, pv.Path))
	case *PtrSetV:
		var res Value
		for i := len(pv.Alts) - 1; i >= 0; i-- {
			al := pv.Alts[i]
			if al.P.Obj == nil {
				continue
			}
			v := x.get(al.P.Obj.Val, al.P.Path)
			if res == nil {
				res = v
			} else {
				res = x.merge(al.G, v, res)
			}
		}
		if res == nil {
			x.fail("load: pointer set with only nil alternatives")
		}
		return res
	}
	x.fail("load: not a pointer: %T", p)
	return nil
}

func (x *Exec) get(v Value, path []PathElem) Value {
	for i, pe := range path {
		v = x.force(v)
		if pe.Field >= 0 {
			sv, ok := v.(*StructV)
			if !ok {
				x.fail("get: field of %T", v)
			}
			v = sv.F[pe.Field]
			continue
		}
		switch av := v.(type) {
		case *ArrayV:
			if pe.Idx.IsConst() {
				if pe.Idx.K >= uint64(len(av.E)) {
					// out of range concrete index: a panic obligation was recorded at IndexAddr; return element 0-ish
					if len(av.E) == 0 {
						x.fail("get: index into empty array")
					}
					v = av.E[0]
				} else {
					v = av.E[pe.Idx.K]
				}
				continue
			}
			// symbolic index: mux over elements, then continue with the rest of the path on each element
			if len(av.E) == 0 {
				x.fail("get: symbolic index into empty array")
			}
			rest := path[i+1:]
			var res Value
			for j := len(av.E) - 1; j >= 0; j-- {
				ev := x.get(av.E[j], rest)
				if res == nil {
					res = ev
				} else {
					res = x.merge(x.c.Eq(pe.Idx, x.c.Const(64, uint64(j))), ev, res)
				}
			}
			return res
		case *SymArrV:
			ev := x.symArrLoad(av, pe.Idx)
			return x.get(ev, path[i+1:])
		case *BigConstV:
			if pe.Idx.IsConst() {
				k := pe.Idx.K
				if k >= uint64(len(av.Data)) {
					k = 0
				}
				return x.get(x.constOfWidth(av.Elem, av.W, av.Data[k]), path[i+1:])
			}
			if len(av.Data) <= 4096 {
				x.stat.bigConstMux++
				var res *Term
				for j := len(av.Data) - 1; j >= 0; j-- {
					ev := x.constOfWidth(av.Elem, av.W, av.Data[j])
					if res == nil {
						res = ev
					} else {
						res = x.c.Ite(x.c.Eq(pe.Idx, x.c.Const(64, uint64(j))), ev, res)
					}
				}
				return x.get(res, path[i+1:])
			}
			x.fail("get: symbolic index into big constant table (%d entries)", len(av.Data))
		default:
			x.fail("get: index of %T", v)
		}
	}
	return v
}

func (x *Exec) constOfWidth(t types.Type, w int, bits uint64) *Term {
	s, _ := x.scalarSort(t)
	switch s.K {
	case SBool:
		return x.c.Bool(bits != 0)
	case SFP:
		return x.c.FpFromBits(x.c.Const(64, bits))
	}
	return x.c.Const(s.W, bits)
}

func (x *Exec) store(p Value, v Value, g *Term) {
	if g.IsFalse() {
		return
	}
	switch pv := p.(type) {
	case *PtrV:
		if pv.Obj == nil {
			x.fail("store through nil pointer")
		}
		pv.Obj.Val = x.set(pv.Obj.Val, pv.Path, v, x.relGuard(g, pv.Obj))
		return
	case *PtrSetV:
		for _, al := range pv.Alts {
			if al.P.Obj == nil {
				continue
			}
			gg := x.c.And(g, al.G)
			if gg.IsFalse() {
				continue
			}
			al.P.Obj.Val = x.set(al.P.Obj.Val, al.P.Path, v, x.relGuard(gg, al.P.Obj))
		}
		return
	}
	x.fail("store: not a pointer: %T", p)
}

func (x *Exec) set(old Value, path []PathElem, v Value, g *Term) Value {
	if len(path) == 0 {
		return x.merge(g, v, old)
	}
	old = x.force(old)
	pe := path[0]
	if pe.Field >= 0 {
		sv, ok := old.(*StructV)
		if !ok {
			x.fail("set: field of %T", old)
		}
		f := append([]Value(nil), sv.F...)
		f[pe.Field] = x.set(sv.F[pe.Field], path[1:], v, g)
		return &StructV{F: f}
	}
	switch av := old.(type) {
	case *ArrayV:
		e := append([]Value(nil), av.E...)
		if pe.Idx.IsConst() {
			if pe.Idx.K < uint64(len(e)) {
				e[pe.Idx.K] = x.set(e[pe.Idx.K], path[1:], v, g)
			}
			return &ArrayV{E: e}
		}
		for j := range e {
			gj := x.c.And(g, x.c.Eq(pe.Idx, x.c.Const(64, uint64(j))))
			if gj.IsFalse() {
				continue
			}
			e[j] = x.set(e[j], path[1:], v, gj)
		}
		return &ArrayV{E: e}
	case *SymArrV:
		var nv Value
		if len(path) == 1 {
			nv = v
		} else {
			nv = x.set(x.symArrLoad(av, pe.Idx), path[1:], v, x.c.True)
		}
		return x.symArrStore(av, pe.Idx, nv, g)
	case *BigConstV:
		// writable copy: convert into a SymArrV initialised from the table (only for small ones)
		x.fail("set: store into big constant table")
	}
	x.fail("set: index of %T", old)
	return nil
}

// ---------- strings ----------

func (x *Exec) strSym(s *StrV) *StrV {
	if !s.Known {
		return s
	}
	out := &StrV{Len: x.c.Const(64, uint64(len(s.S)))}
	for i := 0; i < len(s.S); i++ {
		out.B = append(out.B, x.c.Const(8, uint64(s.S[i])))
	}
	return out
}

func (x *Exec) strEq(a, b *StrV) *Term {
	if a.Known && b.Known {
		return x.c.Bool(a.S == b.S)
	}
	sa, sb := x.strSym(a), x.strSym(b)
	r := x.c.Eq(sa.Len, sb.Len)
	n := len(sa.B)
	if len(sb.B) < n {
		n = len(sb.B)
	}
	// bytes beyond min(maxlen) cannot both be in range unless lengths differ beyond n
	if len(sa.B) != len(sb.B) {
		r = x.c.And(r, x.c.Ule(sa.Len, x.c.Const(64, uint64(n))))
	}
	for i := 0; i < n; i++ {
		in := x.c.Ult(x.c.Const(64, uint64(i)), sa.Len)
		r = x.c.And(r, x.c.Implies(in, x.c.Eq(sa.B[i], sb.B[i])))
	}
	return r
}

// expandRaw turns one level of a dumped table node into a Value.
func (x *Exec) expandRaw(r *RawV) Value {
	n := r.N
	switch u := r.Typ.Underlying().(type) {
	case *types.Basic:
		if u.Info()&types.IsString != 0 {
			return &StrV{Known: true, S: n.S}
		}
		s, _ := x.sortOfBasic(u)
		return x.constOfWidth(r.Typ, s.W, n.U)
	case *types.Struct:
		f := make([]Value, u.NumFields())
		for i := range f {
			f[i] = x.force(&RawV{N: &n.C[i], Typ: u.Field(i).Type(), Pkg: r.Pkg})
		}
		return &StructV{F: f}
	case *types.Array:
		if n.K == 'A' {
			s, _ := x.scalarSort(u.Elem())
			if len(n.Big) > bigArrayThreshold {
				return &BigConstV{Elem: u.Elem(), W: s.W, Data: n.Big}
			}
			e := make([]Value, len(n.Big))
			for i := range e {
				e[i] = x.constOfWidth(u.Elem(), s.W, n.Big[i])
			}
			return &ArrayV{E: e}
		}
		e := make([]Value, len(n.C))
		for i := range e {
			e[i] = &RawV{N: &n.C[i], Typ: u.Elem(), Pkg: r.Pkg}
		}
		return &ArrayV{E: e}
	case *types.Slice:
		if n.K != 'l' || n.Ref < 0 {
			return &SliceV{}
		}
		key := fmt.Sprintf("%s#%d", r.Pkg, n.Ref)
		if x.backings == nil {
			x.backings = map[string]*Object{}
		}
		o := x.backings[key]
		if o == nil {
			bk := &x.ld.Dumps[r.Pkg].Backings[n.Ref]
			ln := len(bk.Big)
			if bk.K != 'A' {
				ln = len(bk.C)
			}
			at := types.NewArray(u.Elem(), int64(ln))
			o = x.newObject(at, &RawV{N: bk, Typ: at, Pkg: r.Pkg}, "backing:"+key)
			x.backings[key] = o
		}
		c := x.c
		return &SliceV{Base: &PtrV{Obj: o}, Off: c.Const(64, uint64(n.Off)), Len: c.Const(64, uint64(n.Len)), Cap: c.Const(64, uint64(n.Cap))}
	}
	x.fail("expandRaw: unsupported type %v", r.Typ)
	return nil
}
