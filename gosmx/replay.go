package main

// Counterexample handling: known-findings matching, native replay against the real build.

import (
	"encoding/json"
	"fmt"
	"os"
	"os/exec"
	"path/filepath"
	"sort"
	"strings"
	"sync"
	"time"
)

type KnownFinding struct {
	Property string `json:"property"`
	Status   string `json:"status"` // known | fixed
	Harness  string `json:"harness"`
	Oblig    string `json:"oblig"`   // substring of the obligation id
	Exclude  string `json:"exclude_smt,omitempty"`
	What     string `json:"what"`
	Commit   string `json:"commit,omitempty"`
	Witness  string `json:"witness,omitempty"`
}

type KnownFindings struct {
	Findings []KnownFinding `json:"findings"`
}

func loadKnownFindings() *KnownFindings {
	kf := &KnownFindings{}
	b, err := os.ReadFile(filepath.Join(verifDir, "known_findings.json"))
	if err == nil {
		if err := json.Unmarshal(b, kf); err != nil {
			fmt.Fprintf(os.Stderr, "known_findings.json: %v\n", err)
		}
	}
	return kf
}

func (r *Run) matchKnown(jr *JobResult, ob *ObligResult) *KnownFinding {
	for i := range r.known.Findings {
		k := &r.known.Findings[i]
		if k.Status != "known" || k.Property != r.o.Prop {
			continue
		}
		if k.Harness != "" && !strings.HasPrefix(jr.Harness, k.Harness) {
			continue
		}
		if k.Oblig != "" && !strings.Contains(ob.ID, k.Oblig) {
			continue
		}
		return k
	}
	return nil
}

var reportedKnown sync.Map

func (r *Run) handleCounterexample(jr *JobResult, ob *ObligResult) int {
	if k := r.matchKnown(jr, ob); k != nil {
		key := k.Property + "|" + k.What
		if _, dup := reportedKnown.LoadOrStore(key, true); !dup {
			line := fmt.Sprintf("KNOWN-FINDING: property=%s %s", k.Property, k.What)
			fmt.Println(line)
			r.findings = append(r.findings, line)
		}
		ob.Verdict = "known finding: " + k.What
		if k.Exclude == "" {
			return 0
		}
		// look for a different violation of the same obligation
		if ob.q == nil {
			return 0
		}
		q2 := &Query{Text: ob.q.Text + "(assert (not " + k.Exclude + "))\n", VarList: ob.q.VarList, Nodes: ob.q.Nodes}
		res := r.pool.Solve(q2, r.o.Timeout, true)
		switch res.Status {
		case "unsat":
			ob.Verdict += " (no other counterexample outside the recorded pattern)"
			return 0
		case "sat":
			ob.Model = res.Model
			ob.Verdict = "counterexample outside the known-finding pattern"
		default:
			msg := fmt.Sprintf("INCONCLUSIVE harness=%s case=%d oblig=%s (re-query excluding known finding: %s %s)", jr.Harness, jr.Case, ob.ID, res.Status, firstLine(res.Raw))
			fmt.Println(msg)
			r.problems = append(r.problems, msg)
			return 2
		}
	}
	path, err := r.writeReplay(jr, ob)
	if err != nil {
		fmt.Println("REPLAY-ERROR", err)
		r.problems = append(r.problems, err.Error())
		return 2
	}
	ob.Replay = path
	out, rerr := r.nativeReplay(jr, path)
	reproduced := false
	switch ob.Kind {
	case "assert":
		reproduced = strings.Contains(out, "VX-ASSERT-FAILED "+ob.ID+"\n")
	case "panic":
		reproduced = strings.Contains(out, "VX-PANIC")
	}
	os.WriteFile(strings.TrimSuffix(path, ".json")+".native.txt", []byte(out), 0o644)
	if reproduced {
		line := fmt.Sprintf("VIOLATION property=%s replay=%s", r.o.Prop, path)
		fmt.Println(line)
		fmt.Printf("  harness=%s case=%d obligation=%s (%s) at %s — reproduced natively\n", jr.Harness, jr.Case, ob.ID, ob.Kind, ob.Pos)
		r.violations = append(r.violations, fmt.Sprintf("%s case %d: %s", jr.Harness, jr.Case, ob.ID))
		ob.Verdict = "violation (reproduced natively)"
		return 1
	}
	why := "native run did not fail the same assertion"
	if rerr != nil {
		why = "native replay could not run: " + rerr.Error()
	}
	if strings.Contains(out, "VX-ASSUME-FAILED") {
		why = "native run violated a harness assumption (model/encoding mismatch)"
	}
	msg := fmt.Sprintf("ENCODING-MISMATCH harness=%s case=%d oblig=%s: %s (see %s)", jr.Harness, jr.Case, ob.ID, why, path)
	fmt.Println(msg)
	r.problems = append(r.problems, msg)
	ob.Verdict = "encoding mismatch: " + why
	return 2
}

var replayN int
var replayMu sync.Mutex

func (r *Run) writeReplay(jr *JobResult, ob *ObligResult) (string, error) {
	replayMu.Lock()
	replayN++
	n := replayN
	replayMu.Unlock()
	dir := filepath.Join(verifDir, "replays", r.o.Prop)
	if err := os.MkdirAll(dir, 0o755); err != nil {
		return "", err
	}
	model := map[string]string{}
	var names []string
	for k := range ob.Model {
		names = append(names, k)
	}
	sort.Strings(names)
	for _, k := range names {
		model[k] = fmt.Sprintf("%d", ob.Model[k])
	}
	rep := map[string]interface{}{
		"property": r.o.Prop, "harness": jr.Harness, "case": jr.Case, "obligation": ob.ID, "kind": ob.Kind,
		"source": ob.Pos, "model": model,
	}
	b, _ := json.MarshalIndent(rep, "", " ")
	path := filepath.Join(dir, fmt.Sprintf("%s_%d_%d.json", jr.Harness, jr.Case+0, n))
	return path, os.WriteFile(path, b, 0o644)
}

var nativeMu sync.Mutex

// nativeReplay runs the harness natively (real code, intrinsics reading the model).
func (r *Run) nativeReplay(jr *JobResult, replayPath string) (string, error) {
	nativeMu.Lock()
	defer nativeMu.Unlock()
	return NativeReplay(r.ld, jr.Harness, replayPath)
}

func NativeReplay(ld *Loaded, harness, replayPath string) (string, error) {
	fn := ld.HarnessFn[harness]
	if fn == nil {
		return "", fmt.Errorf("unknown harness %s", harness)
	}
	pkgPath := fn.Pkg.Pkg.Path()
	pkgDir := strings.TrimPrefix(pkgPath, modPath+"/internal/")
	ov, err := harnessOverlay(true)
	if err != nil {
		return "", err
	}
	tmp, err := os.MkdirTemp("", "vxreplay")
	if err != nil {
		return "", err
	}
	defer os.RemoveAll(tmp)
	// registry test for the harness package
	var reg strings.Builder
	fmt.Fprintf(&reg, "package %s\n\nimport \"testing\"\n\nfunc TestZZVxReplay(t *testing.T) {\n\tvxReplayMain(map[string]interface{}{\n", fn.Pkg.Pkg.Name())
	var hn []string
	for name, f := range ld.HarnessFn {
		if f.Pkg == fn.Pkg {
			hn = append(hn, name)
		}
	}
	sort.Strings(hn)
	for _, name := range hn {
		fmt.Fprintf(&reg, "\t\t%q: %s,\n", name, name)
	}
	reg.WriteString("\t})\n}\n")
	ov[filepath.Join(repoDir, "internal", pkgDir, "zz_vx_replay_test.go")] = []byte(reg.String())
	rep := map[string]string{}
	i := 0
	for k, v := range ov {
		i++
		f := filepath.Join(tmp, fmt.Sprintf("f%d_%s", i, filepath.Base(k)))
		if err := os.WriteFile(f, v, 0o644); err != nil {
			return "", err
		}
		rep[k] = f
	}
	ovb, _ := json.Marshal(map[string]interface{}{"Replace": rep})
	ovf := filepath.Join(tmp, "overlay.json")
	os.WriteFile(ovf, ovb, 0o644)
	cmd := exec.Command("go", "test", "-vet=off", "-count=1", "-overlay", ovf, "-run", "^TestZZVxReplay$", "-v", "-timeout", "300s", "./internal/"+pkgDir+"/")
	cmd.Dir = repoDir
	cmd.Env = append(goEnv(), "VX_REPLAY="+replayPath)
	done := make(chan struct{})
	var out []byte
	var cerr error
	go func() {
		out, cerr = cmd.CombinedOutput()
		close(done)
	}()
	select {
	case <-done:
	case <-time.After(330 * time.Second):
		cmd.Process.Kill()
		<-done
		return string(out), fmt.Errorf("native replay timed out")
	}
	s := string(out)
	if !strings.Contains(s, "VX-DONE") && !strings.Contains(s, "VX-PANIC") && !strings.Contains(s, "VX-ASSUME-FAILED") {
		return s, fmt.Errorf("native replay produced no verdict: %v", cerr)
	}
	return s, nil
}

func harnessAssumptions(prop string) []string {
	b, err := os.ReadFile(filepath.Join(verifDir, "harness", "bounds.json"))
	if err != nil {
		return nil
	}
	m := map[string][]string{}
	if json.Unmarshal(b, &m) != nil {
		return nil
	}
	return m[prop]
}
