package main

// Counterexample handling: known-findings matching, native replay against the real build.

import (
	"encoding/json"
	"fmt"
	"go/ast"
	"go/token"
	"os"
	"os/exec"
	"path/filepath"
	"sort"
	"strings"
	"sync"
	"time"

	"golang.org/x/tools/go/ssa"
	"golang.org/x/tools/go/ssa/ssautil"
)

type KnownFinding struct {
	Property string `json:"property"`
	Status   string `json:"status"` // known | fixed
	Harness  string `json:"harness"`
	Oblig    string `json:"oblig"`   // substring of the obligation id
	Exclude  string `json:"exclude_smt,omitempty"`
	What     string `json:"what"`
	Commit   string `json:"commit,omitempty"`
	Witness  string `json:"witness,omitempty"`
}

type KnownFindings struct {
	Findings []KnownFinding `json:"findings"`
}

func loadKnownFindings() *KnownFindings {
	kf := &KnownFindings{}
	b, err := os.ReadFile(filepath.Join(verifDir, "known_findings.json"))
	if err == nil {
		if err := json.Unmarshal(b, kf); err != nil {
			fmt.Fprintf(os.Stderr, "known_findings.json: %v\n", err)
		}
	}
	return kf
}

func (r *Run) matchKnown(jr *JobResult, ob *ObligResult) []*KnownFinding {
	var out []*KnownFinding
	for i := range r.known.Findings {
		k := &r.known.Findings[i]
		if k.Status != "known" || k.Property != r.o.Prop {
			continue
		}
		if k.Harness != "" && !strings.HasPrefix(jr.Harness, k.Harness) {
			continue
		}
		if k.Oblig != "" && !strings.Contains(ob.ID, k.Oblig) {
			continue
		}
		out = append(out, k)
	}
	return out
}

var reportedKnown sync.Map

func (r *Run) reportKnown(k *KnownFinding) {
	key := k.Property + "|" + k.What
	if _, dup := reportedKnown.LoadOrStore(key, true); !dup {
		line := fmt.Sprintf("KNOWN-FINDING: property=%s %s", k.Property, k.What)
		fmt.Println(line)
		r.findings = append(r.findings, line)
	}
}

// declsFor returns declarations for variables mentioned in the patterns that the query did not need.
func (r *Run) declsFor(q *Query, jr *JobResult, patterns ...string) string {
	var sb strings.Builder
	done := map[string]bool{}
	for _, pattern := range patterns {
		rest := pattern
		for {
			i := strings.Index(rest, "|")
			if i < 0 {
				break
			}
			j := strings.Index(rest[i+1:], "|")
			if j < 0 {
				break
			}
			name := rest[i+1 : i+1+j]
			rest = rest[i+j+2:]
			if !q.Decl[name] && !done[name] {
				if srt, ok := jr.VarSorts[name]; ok {
					fmt.Fprintf(&sb, "(declare-fun |%s| () %s)\n", name, srt)
					done[name] = true
				}
			}
		}
	}
	return sb.String()
}

func (r *Run) handleCounterexample(jr *JobResult, ob *ObligResult) int {
	if ks := r.matchKnown(jr, ob); len(ks) > 0 {
		var excl []string
		for _, k := range ks {
			if k.Exclude == "" {
				// the whole obligation is the finding
				r.reportKnown(k)
				ob.Verdict = "known finding: " + k.What
				return 0
			}
			if ob.q == nil {
				continue
			}
			qk := &Query{Text: r.declsFor(ob.q, jr, k.Exclude) + ob.q.Text + "(assert " + k.Exclude + ")\n", Decl: ob.q.Decl}
			res := r.solvePortfolio(qk)
			switch res.Status {
			case "sat":
				r.reportKnown(k)
				ob.Verdict += "known finding: " + k.What + "; "
			case "unsat":
			default:
				msg := fmt.Sprintf("INCONCLUSIVE harness=%s case=%d oblig=%s (query restricted to known-finding pattern: %s %s)", jr.Harness, jr.Case, ob.ID, res.Status, firstLine(res.Raw))
				fmt.Println(msg)
				r.problems = append(r.problems, msg)
				return 2
			}
			excl = append(excl, k.Exclude)
		}
		if ob.q != nil {
			text := r.declsFor(ob.q, jr, excl...) + ob.q.Text
			for _, e := range excl {
				text += "(assert (not " + e + "))\n"
			}
			q2 := &Query{Text: text, VarList: ob.q.VarList, Nodes: ob.q.Nodes, Cells: ob.q.Cells, Decl: ob.q.Decl}
			res := r.solvePortfolio(q2)
			switch res.Status {
			case "unsat":
				ob.Verdict += "(no counterexample outside the recorded patterns)"
				return 0
			case "sat":
				ob.Model = res.Model
				ob.Verdict = "counterexample outside the known-finding patterns"
			default:
				msg := fmt.Sprintf("INCONCLUSIVE harness=%s case=%d oblig=%s (re-query excluding known findings: %s %s)", jr.Harness, jr.Case, ob.ID, res.Status, firstLine(res.Raw))
				fmt.Println(msg)
				r.problems = append(r.problems, msg)
				return 2
			}
		}
	}
	path, err := r.writeReplay(jr, ob)
	if err != nil {
		fmt.Println("REPLAY-ERROR", err)
		r.problems = append(r.problems, err.Error())
		return 2
	}
	ob.Replay = path
	if jr.AbstractReplay {
		// schedule / environment harness: the counterexample is a sequence of environment choices
		// (clock readings, stop requests, search restarts) that no deterministic native run can be
		// forced to take; it is reported as an abstract counterexample with its model
		line := fmt.Sprintf("VIOLATION property=%s replay=%s", r.o.Prop, path)
		fmt.Println(line)
		fmt.Printf("  harness=%s case=%d obligation=%s (%s) at %s — abstract counterexample over environment choices (see model)\n", jr.Harness, jr.Case, ob.ID, ob.Kind, ob.Pos)
		r.violations = append(r.violations, fmt.Sprintf("%s case %d: %s", jr.Harness, jr.Case, ob.ID))
		ob.Verdict = "violation (abstract counterexample)"
		return 1
	}
	out, rerr := r.nativeReplay(jr, path)
	reproduced := false
	switch ob.Kind {
	case "assert", "bassert":
		reproduced = strings.Contains(out, "VX-ASSERT-FAILED "+ob.ID+"\n")
	case "panic":
		reproduced = strings.Contains(out, "VX-PANIC")
	}
	os.WriteFile(strings.TrimSuffix(path, ".json")+".native.txt", []byte(out), 0o644)
	if reproduced {
		line := fmt.Sprintf("VIOLATION property=%s replay=%s", r.o.Prop, path)
		fmt.Println(line)
		fmt.Printf("  harness=%s case=%d obligation=%s (%s) at %s — reproduced natively\n", jr.Harness, jr.Case, ob.ID, ob.Kind, ob.Pos)
		r.violations = append(r.violations, fmt.Sprintf("%s case %d: %s", jr.Harness, jr.Case, ob.ID))
		ob.Verdict = "violation (reproduced natively)"
		return 1
	}
	why := "native run did not fail the same assertion"
	if rerr != nil {
		why = "native replay could not run: " + rerr.Error()
	}
	if strings.Contains(out, "VX-ASSUME-FAILED") {
		why = "native run violated a harness assumption (model/encoding mismatch)"
	}
	msg := fmt.Sprintf("ENCODING-MISMATCH harness=%s case=%d oblig=%s: %s (see %s)", jr.Harness, jr.Case, ob.ID, why, path)
	fmt.Println(msg)
	r.problems = append(r.problems, msg)
	ob.Verdict = "encoding mismatch: " + why
	return 2
}

var replayN int
var replayMu sync.Mutex

func (r *Run) writeReplay(jr *JobResult, ob *ObligResult) (string, error) {
	replayMu.Lock()
	replayN++
	n := replayN
	replayMu.Unlock()
	dir := filepath.Join(verifDir, "replays", r.o.Prop)
	if err := os.MkdirAll(dir, 0o755); err != nil {
		return "", err
	}
	model := map[string]string{}
	var names []string
	for k := range ob.Model {
		names = append(names, k)
	}
	sort.Strings(names)
	for _, k := range names {
		model[k] = fmt.Sprintf("%d", ob.Model[k])
	}
	rep := map[string]interface{}{
		"property": r.o.Prop, "harness": jr.Harness, "case": jr.Case, "obligation": ob.ID, "kind": ob.Kind,
		"source": ob.Pos, "model": model, "stubs": jr.StubNames,
	}
	b, _ := json.MarshalIndent(rep, "", " ")
	path := filepath.Join(dir, fmt.Sprintf("%s_%d_%d.json", jr.Harness, jr.Case+0, n))
	return path, os.WriteFile(path, b, 0o644)
}

var nativeMu sync.Mutex

// nativeReplay runs the harness natively (real code, intrinsics reading the model).
func (r *Run) nativeReplay(jr *JobResult, replayPath string) (string, error) {
	nativeMu.Lock()
	defer nativeMu.Unlock()
	return NativeReplay(r.ld, jr.Harness, replayPath)
}

func NativeReplay(ld *Loaded, harness, replayPath string) (string, error) {
	fn := ld.HarnessFn[harness]
	if fn == nil {
		return "", fmt.Errorf("unknown harness %s", harness)
	}
	pkgPath := fn.Pkg.Pkg.Path()
	pkgDir := strings.TrimPrefix(pkgPath, modPath+"/internal/")
	ov, err := harnessOverlay(true)
	if err != nil {
		return "", err
	}
	tmp, err := os.MkdirTemp("", "vxreplay")
	if err != nil {
		return "", err
	}
	defer os.RemoveAll(tmp)
	if err := addNativeStubs(ld, ov, replayPath); err != nil {
		return "", fmt.Errorf("native stubs: %v", err)
	}
	// registry test for the harness package
	var reg strings.Builder
	fmt.Fprintf(&reg, "package %s\n\nimport \"testing\"\n\nfunc TestZZVxReplay(t *testing.T) {\n\tvxReplayMain(map[string]interface{}{\n", fn.Pkg.Pkg.Name())
	var hn []string
	for name, f := range ld.HarnessFn {
		if f.Pkg == fn.Pkg {
			hn = append(hn, name)
		}
	}
	sort.Strings(hn)
	for _, name := range hn {
		fmt.Fprintf(&reg, "\t\t%q: %s,\n", name, name)
	}
	reg.WriteString("\t})\n}\n")
	ov[filepath.Join(repoDir, "internal", pkgDir, "zz_vx_replay_test.go")] = []byte(reg.String())
	rep := map[string]string{}
	i := 0
	for k, v := range ov {
		i++
		f := filepath.Join(tmp, fmt.Sprintf("f%d_%s", i, filepath.Base(k)))
		if err := os.WriteFile(f, v, 0o644); err != nil {
			return "", err
		}
		rep[k] = f
	}
	ovb, _ := json.Marshal(map[string]interface{}{"Replace": rep})
	ovf := filepath.Join(tmp, "overlay.json")
	os.WriteFile(ovf, ovb, 0o644)
	cmd := exec.Command("go", "test", "-vet=off", "-count=1", "-overlay", ovf, "-run", "^TestZZVxReplay$", "-v", "-timeout", "300s", "./internal/"+pkgDir+"/")
	cmd.Dir = repoDir
	cmd.Env = append(goEnv(), "VX_REPLAY="+replayPath)
	done := make(chan struct{})
	var out []byte
	var cerr error
	go func() {
		out, cerr = cmd.CombinedOutput()
		close(done)
	}()
	select {
	case <-done:
	case <-time.After(330 * time.Second):
		cmd.Process.Kill()
		<-done
		return string(out), fmt.Errorf("native replay timed out")
	}
	s := string(out)
	if !strings.Contains(s, "VX-DONE") && !strings.Contains(s, "VX-PANIC") && !strings.Contains(s, "VX-ASSUME-FAILED") {
		return s, fmt.Errorf("native replay produced no verdict: %v", cerr)
	}
	return s, nil
}

func harnessAssumptions(prop string) []string {
	b, err := os.ReadFile(filepath.Join(verifDir, "harness", "bounds.json"))
	if err != nil {
		return nil
	}
	m := map[string][]string{}
	if json.Unmarshal(b, &m) != nil {
		return nil
	}
	return m[prop]
}

// cmdReplay re-runs a stored counterexample natively against the current /repo.
func cmdReplay(args []string) int {
	var prop, file string
	for i := 0; i+1 < len(args); i += 2 {
		switch args[i] {
		case "-prop":
			prop = args[i+1]
		case "-file":
			file = args[i+1]
		}
	}
	_ = prop
	b, err := os.ReadFile(file)
	if err != nil {
		fmt.Println(err)
		return 2
	}
	var rep struct {
		Harness string `json:"harness"`
		Oblig   string `json:"obligation"`
		Kind    string `json:"kind"`
		Prop    string `json:"property"`
	}
	if err := json.Unmarshal(b, &rep); err != nil {
		fmt.Println(err)
		return 2
	}
	ld, err := LoadRepo(nil)
	if err != nil {
		fmt.Println(err)
		return 2
	}
	out, err := NativeReplay(ld, rep.Harness, file)
	fmt.Print(out)
	if err != nil {
		fmt.Println("replay error:", err)
		return 2
	}
	if ((rep.Kind == "assert" || rep.Kind == "bassert") && strings.Contains(out, "VX-ASSERT-FAILED "+rep.Oblig+"\n")) || (rep.Kind == "panic" && strings.Contains(out, "VX-PANIC")) {
		fmt.Printf("VIOLATION property=%s replay=%s\n", rep.Prop, file)
		return 1
	}
	fmt.Println("not reproduced on the current tree")
	return 0
}

// cmdSelftest: translator validation. Every VT_* function (returning uint64, no parameters) is run
// through the symbolic executor (where it must fold to a constant) and natively; results must agree.
func cmdSelftest(args []string) int {
	ld, err := LoadRepo(dumpPkgs)
	if err != nil {
		fmt.Fprintln(os.Stderr, "selftest: load failed:", err)
		return 2
	}
	type vt struct {
		name string
		pkg  string
		val  uint64
	}
	var tests []vt
	byPkg := map[string][]string{}
	for _, sp := range ld.SSAPkgs {
		for name, m := range sp.Members {
			fn, ok := m.(*ssa.Function)
			if !ok || !strings.HasPrefix(name, "VT_") {
				continue
			}
			var res uint64
			err := protect(func() {
				x := NewExec(ld)
				x.unwind = 0
				v, _ := x.callFunc(fn, nil, nil, x.c.True, fn.Pos())
				t, ok := v.(*Term)
				if !ok || !t.IsConst() {
					x.fail("%s did not fold to a constant", name)
				}
				res = t.K
			})
			if err != nil {
				fmt.Printf("SELFTEST-FAIL %s: %v\n", name, err)
				return 2
			}
			pd := strings.TrimPrefix(sp.Pkg.Path(), modPath+"/internal/")
			tests = append(tests, vt{name: name, pkg: pd, val: res})
			byPkg[pd] = append(byPkg[pd], name)
		}
	}
	bad := 0
	for pd, names := range byPkg {
		sort.Strings(names)
		out, err := nativeVT(ld, pd, names)
		if err != nil {
			fmt.Printf("SELFTEST-FAIL native run for %s: %v\n%s\n", pd, err, out)
			return 2
		}
		for _, t := range tests {
			if t.pkg != pd {
				continue
			}
			want := fmt.Sprintf("VT %s %d\n", t.name, t.val)
			if !strings.Contains(out, want) {
				fmt.Printf("SELFTEST-MISMATCH %s: encoder=%d native output:\n%s\n", t.name, t.val, grepLines(out, "VT "+t.name+" "))
				bad++
			}
		}
	}
	fmt.Printf("selftest: %d translator-validation scenarios, %d mismatches\n", len(tests), bad)
	if bad > 0 {
		return 2
	}
	return 0
}

func grepLines(s, pat string) string {
	var out []string
	for _, l := range strings.Split(s, "\n") {
		if strings.Contains(l, pat) {
			out = append(out, l)
		}
	}
	return strings.Join(out, "\n")
}

func nativeVT(ld *Loaded, pkgDir string, names []string) (string, error) {
	ov, err := harnessOverlay(true)
	if err != nil {
		return "", err
	}
	tmp, err := os.MkdirTemp("", "vxvt")
	if err != nil {
		return "", err
	}
	defer os.RemoveAll(tmp)
	sp := ld.SSAPkgs[modPath+"/internal/"+pkgDir]
	var reg strings.Builder
	fmt.Fprintf(&reg, "package %s\n\nimport (\n\t\"fmt\"\n\t\"testing\"\n)\n\nfunc TestZZVxVT(t *testing.T) {\n", sp.Pkg.Name())
	for _, n := range names {
		fmt.Fprintf(&reg, "\tfmt.Printf(\"VT %s %%d\\n\", %s())\n", n, n)
	}
	reg.WriteString("}\n")
	ov[filepath.Join(repoDir, "internal", pkgDir, "zz_vx_vt_test.go")] = []byte(reg.String())
	rep := map[string]string{}
	i := 0
	for k, v := range ov {
		i++
		f := filepath.Join(tmp, fmt.Sprintf("f%d_%s", i, filepath.Base(k)))
		os.WriteFile(f, v, 0o644)
		rep[k] = f
	}
	ovb, _ := json.Marshal(map[string]interface{}{"Replace": rep})
	ovf := filepath.Join(tmp, "overlay.json")
	os.WriteFile(ovf, ovb, 0o644)
	cmd := exec.Command("go", "test", "-vet=off", "-count=1", "-overlay", ovf, "-run", "^TestZZVxVT$", "-v", "-timeout", "300s", "./internal/"+pkgDir+"/")
	cmd.Dir = repoDir
	cmd.Env = goEnv()
	out, err := cmd.CombinedOutput()
	return string(out), err
}

// addNativeStubs makes the harness's vxStub replacements effective in the native replay: every
// stubbed function f is renamed fVxReal in an overlay copy of its source file and a wrapper f is
// added that calls the registered replacement (package internal/vxhook, overlay only) or the real
// code. The replay therefore runs the same composition of real code and stubs as the encoding.
func addNativeStubs(ld *Loaded, ov map[string][]byte, replayPath string) error {
	b, err := os.ReadFile(replayPath)
	if err != nil {
		return nil
	}
	var rep struct {
		Stubs []string `json:"stubs"`
	}
	json.Unmarshal(b, &rep)
	if len(rep.Stubs) == 0 {
		return nil
	}
	byName := map[string]*ssa.Function{}
	for fn := range ssautil.AllFunctions(ld.Prog) {
		byName[fn.String()] = fn
	}
	type edit struct {
		off int
		ins string
		del int
	}
	edits := map[string][]edit{}
	appendix := map[string]string{}
	for _, name := range rep.Stubs {
		fn := byName[name]
		if fn == nil || fn.Syntax() == nil {
			continue
		}
		fd, ok := fn.Syntax().(*ast.FuncDecl)
		if !ok {
			continue
		}
		tf := ld.Prog.Fset.File(fd.Pos())
		file := tf.Name()
		if strings.Contains(file, "zz_vx") || !strings.HasPrefix(file, repoDir+"/") {
			continue // harness functions and functions outside the repository are not rewritten
		}
		src, ok2 := ov[file]
		if !ok2 {
			src, err = os.ReadFile(file)
			if err != nil {
				return err
			}
		}
		text := func(a, z token.Pos) string { return string(src[tf.Offset(a):tf.Offset(z)]) }
		var recvDecl, recvName, recvType string
		if fd.Recv != nil && len(fd.Recv.List) == 1 {
			f := fd.Recv.List[0]
			recvType = text(f.Type.Pos(), f.Type.End())
			recvName = "vxr"
			if len(f.Names) == 1 && f.Names[0].Name != "_" {
				recvName = f.Names[0].Name
			}
			recvDecl = "(" + recvName + " " + recvType + ") "
		}
		var params, args, ptypes []string
		i := 0
		for _, f := range fd.Type.Params.List {
			ty := text(f.Type.Pos(), f.Type.End())
			if strings.HasPrefix(ty, "...") {
				ptypes = nil
				params = nil
				break
			}
			names := f.Names
			if len(names) == 0 {
				names = []*ast.Ident{{Name: "_"}}
			}
			for range names {
				pn := fmt.Sprintf("vxp%d", i)
				i++
				params = append(params, pn+" "+ty)
				args = append(args, pn)
				ptypes = append(ptypes, ty)
			}
		}
		if params == nil && len(fd.Type.Params.List) > 0 {
			continue // variadic: the real function runs natively
		}
		results := ""
		if fd.Type.Results != nil {
			results = text(fd.Type.Results.Pos(), fd.Type.Results.End())
		}
		hookTypes := ptypes
		callArgs := args
		if recvDecl != "" {
			hookTypes = append([]string{recvType}, ptypes...)
			callArgs = append([]string{recvName}, args...)
		}
		ret := "return "
		if results == "" {
			ret = ""
		}
		realCall := fd.Name.Name + "VxReal(" + strings.Join(args, ", ") + ")"
		if recvDecl != "" {
			realCall = recvName + "." + realCall
		}
		hookRet := ""
		if results != "" {
			hookRet = " " + results
		}
		w := fmt.Sprintf("\nfunc %s%s(%s) %s {\n\tif h, ok := vxhook.Get(%q); ok {\n\t\t%sh.(func(%s)%s)(%s)\n\t\treturn\n\t}\n\t%s%s\n}\n",
			recvDecl, fd.Name.Name, strings.Join(params, ", "), results, name, ret, strings.Join(hookTypes, ", "), hookRet, strings.Join(callArgs, ", "), ret, realCall)
		if results != "" {
			w = fmt.Sprintf("\nfunc %s%s(%s) %s {\n\tif h, ok := vxhook.Get(%q); ok {\n\t\treturn h.(func(%s)%s)(%s)\n\t}\n\treturn %s\n}\n",
				recvDecl, fd.Name.Name, strings.Join(params, ", "), results, name, strings.Join(hookTypes, ", "), hookRet, strings.Join(callArgs, ", "), realCall)
		}
		appendix[file] += w
		edits[file] = append(edits[file], edit{off: tf.Offset(fd.Name.End()), ins: "VxReal"})
		if _, seen := ov[file]; !seen {
			ov[file] = src
		}
	}
	for file, es := range edits {
		src := ov[file]
		sort.Slice(es, func(i, j int) bool { return es[i].off > es[j].off })
		for _, e := range es {
			src = append(src[:e.off:e.off], append([]byte(e.ins), src[e.off:]...)...)
		}
		// import of the hook package right after the package clause
		txt := string(src)
		idx := strings.Index(txt, "\npackage ")
		if strings.HasPrefix(txt, "package ") {
			idx = -1
		}
		nl := strings.Index(txt[idx+1:], "\n") + idx + 1
		txt = txt[:nl+1] + "\nimport vxhook \"" + modPath + "/internal/vxhook\"\n" + txt[nl+1:] + appendix[file]
		ov[file] = []byte(txt)
	}
	return nil
}
