package main

// Hash-consed term DAG with eager simplification. One Ctx per job (not shared between goroutines).

import (
	"fmt"
	"math"
	"math/bits"
)

type SortKind uint8

const (
	SBool SortKind = iota
	SBV
	SArr
	SFP // float64
)

type Sort struct {
	K    SortKind
	W    int // BV width / array element width
	IdxW int // array index width
}

var BoolSort = Sort{K: SBool}

func BV(w int) Sort            { return Sort{K: SBV, W: w} }
func ArrSort(iw, ew int) Sort  { return Sort{K: SArr, W: ew, IdxW: iw} }
func (s Sort) String() string {
	switch s.K {
	case SBool:
		return "Bool"
	case SBV:
		return fmt.Sprintf("(_ BitVec %d)", s.W)
	case SArr:
		return fmt.Sprintf("(Array (_ BitVec %d) (_ BitVec %d))", s.IdxW, s.W)
	case SFP:
		return "(_ FloatingPoint 11 53)"
	}
	return "?"
}

type Op uint8

const (
	OConst Op = iota
	OVar
	ONot
	OAnd
	OOr
	OIte
	OEq
	OBvAdd
	OBvSub
	OBvMul
	OBvUDiv
	OBvURem
	OBvSDiv
	OBvSRem
	OBvAnd
	OBvOr
	OBvXor
	OBvNot
	OBvNeg
	OBvShl
	OBvLShr
	OBvAShr
	OBvUlt
	OBvUle
	OBvSlt
	OBvSle
	OConcat
	OExtract // K = hi<<8|lo
	OZeroExt // K = extra bits
	OSignExt
	OSelect
	OStore
	OConstArr
	OApply // uninterpreted function, Name
	// floating point (float64)
	OFpFromBits // bv64 -> fp
	OFpToBits   // fp -> bv64 (via fresh-var trick is avoided: we only use it for model values)
	OFpAdd
	OFpSub
	OFpMul
	OFpDiv
	OFpNeg
	OFpLt
	OFpLe
	OFpEq
	OFpFromSInt // bv -> fp (signed)
	OFpFromUInt
	OFpToSInt // fp -> bv K=width (RTZ)
	OFpToUInt
	OFpIsNaN
)

var opNames = map[Op]string{
	ONot: "not", OAnd: "and", OOr: "or", OIte: "ite", OEq: "=",
	OBvAdd: "bvadd", OBvSub: "bvsub", OBvMul: "bvmul", OBvUDiv: "bvudiv", OBvURem: "bvurem",
	OBvSDiv: "bvsdiv", OBvSRem: "bvsrem", OBvAnd: "bvand", OBvOr: "bvor", OBvXor: "bvxor",
	OBvNot: "bvnot", OBvNeg: "bvneg", OBvShl: "bvshl", OBvLShr: "bvlshr", OBvAShr: "bvashr",
	OBvUlt: "bvult", OBvUle: "bvule", OBvSlt: "bvslt", OBvSle: "bvsle", OConcat: "concat",
	OSelect: "select", OStore: "store",
	OFpAdd: "fp.add RNE", OFpSub: "fp.sub RNE", OFpMul: "fp.mul RNE", OFpDiv: "fp.div RNE", OFpNeg: "fp.neg",
	OFpLt: "fp.lt", OFpLe: "fp.leq", OFpEq: "fp.eq", OFpIsNaN: "fp.isNaN",
}

type Term struct {
	ID   int32
	Op   Op
	Sort Sort
	A    []*Term
	K    uint64
	Name string
}

type tkey struct {
	op         Op
	k          uint64
	a0, a1, a2 int32
	name       string
	sort       Sort
}

type Ctx struct {
	tab    map[tkey]*Term
	n      int32
	True   *Term
	False  *Term
	fresh  int
	Vars   []*Term // declared variables, in creation order
	varIdx map[string]*Term
	Concrete    map[string]uint64 // debugging: variables take these values (concrete re-execution of a model)
	extractMemo map[[3]int32]*Term
	selectMemo  map[[2]int32]*Term
}

func NewCtx() *Ctx {
	c := &Ctx{tab: map[tkey]*Term{}, varIdx: map[string]*Term{}}
	c.True = c.mk(OConst, BoolSort, 1, "")
	c.False = c.mk(OConst, BoolSort, 0, "")
	return c
}

func (c *Ctx) mk(op Op, s Sort, k uint64, name string, a ...*Term) *Term {
	key := tkey{op: op, k: k, name: name, sort: s, a0: -1, a1: -1, a2: -1}
	if len(a) > 0 {
		key.a0 = a[0].ID
	}
	if len(a) > 1 {
		key.a1 = a[1].ID
	}
	if len(a) > 2 {
		key.a2 = a[2].ID
	}
	if len(a) > 3 {
		panic("mk: too many args")
	}
	if t, ok := c.tab[key]; ok {
		return t
	}
	if c.n > 30_000_000 {
		panic(&ExecFail{Msg: "term budget exceeded (30M nodes): the encoding blew up"})
	}
	t := &Term{ID: c.n, Op: op, Sort: s, K: k, Name: name}
	if len(a) > 0 {
		t.A = append([]*Term(nil), a...)
	}
	c.n++
	c.tab[key] = t
	return t
}

func mask(w int) uint64 {
	if w >= 64 {
		return ^uint64(0)
	}
	return (uint64(1) << uint(w)) - 1
}

func (t *Term) IsConst() bool { return t.Op == OConst }
func (t *Term) IsTrue() bool  { return t.Op == OConst && t.Sort.K == SBool && t.K == 1 }
func (t *Term) IsFalse() bool { return t.Op == OConst && t.Sort.K == SBool && t.K == 0 }

// SignedVal returns the constant as a sign-extended int64.
func (t *Term) SignedVal() int64 {
	w := t.Sort.W
	if w >= 64 {
		return int64(t.K)
	}
	if t.K&(1<<uint(w-1)) != 0 {
		return int64(t.K | ^mask(w))
	}
	return int64(t.K)
}

func (c *Ctx) Bool(b bool) *Term {
	if b {
		return c.True
	}
	return c.False
}
func (c *Ctx) Const(w int, v uint64) *Term { return c.mk(OConst, BV(w), v&mask(w), "") }

func (c *Ctx) Var(name string, s Sort) *Term {
	if c.Concrete != nil && s.K != SArr {
		if v, ok := c.Concrete[name]; ok {
			if s.K == SBool {
				return c.Bool(v != 0)
			}
			return c.Const(s.W, v)
		}
		if s.K == SBool {
			return c.False
		}
		return c.Const(s.W, 0)
	}
	if t, ok := c.varIdx[name]; ok {
		if t.Sort != s {
			panic("Var redeclared with different sort: " + name)
		}
		return t
	}
	t := c.mk(OVar, s, 0, name)
	c.varIdx[name] = t
	c.Vars = append(c.Vars, t)
	return t
}

func (c *Ctx) Fresh(prefix string, s Sort) *Term {
	for {
		c.fresh++
		n := fmt.Sprintf("%s!%d", prefix, c.fresh)
		if _, ok := c.varIdx[n]; !ok {
			return c.Var(n, s)
		}
	}
}

// ---------- boolean ----------

func (c *Ctx) Not(a *Term) *Term {
	if a.IsConst() {
		return c.Bool(a.K == 0)
	}
	if a.Op == ONot {
		return a.A[0]
	}
	return c.mk(ONot, BoolSort, 0, "", a)
}

func (c *Ctx) And(a, b *Term) *Term {
	if a.IsFalse() || b.IsFalse() {
		return c.False
	}
	if a.IsTrue() {
		return b
	}
	if b.IsTrue() {
		return a
	}
	if a == b {
		return a
	}
	if (a.Op == ONot && a.A[0] == b) || (b.Op == ONot && b.A[0] == a) {
		return c.False
	}
	// absorption: a ∧ (a ∧ x) etc.
	if b.Op == OAnd && (b.A[0] == a || b.A[1] == a) {
		return b
	}
	if a.Op == OAnd && (a.A[0] == b || a.A[1] == b) {
		return a
	}
	if a.ID > b.ID {
		a, b = b, a
	}
	return c.mk(OAnd, BoolSort, 0, "", a, b)
}

func (c *Ctx) Or(a, b *Term) *Term {
	if a.IsTrue() || b.IsTrue() {
		return c.True
	}
	if a.IsFalse() {
		return b
	}
	if b.IsFalse() {
		return a
	}
	if a == b {
		return a
	}
	if (a.Op == ONot && a.A[0] == b) || (b.Op == ONot && b.A[0] == a) {
		return c.True
	}
	if b.Op == OOr && (b.A[0] == a || b.A[1] == a) {
		return b
	}
	if a.Op == OOr && (a.A[0] == b || a.A[1] == b) {
		return a
	}
	// (x ∧ y) ∨ (x ∧ ¬y) = x
	if a.Op == OAnd && b.Op == OAnd {
		for i := 0; i < 2; i++ {
			for j := 0; j < 2; j++ {
				if a.A[i] == b.A[j] && c.Not(a.A[1-i]) == b.A[1-j] {
					return a.A[i]
				}
			}
		}
	}
	if a.ID > b.ID {
		a, b = b, a
	}
	return c.mk(OOr, BoolSort, 0, "", a, b)
}

func (c *Ctx) Implies(a, b *Term) *Term { return c.Or(c.Not(a), b) }

func (c *Ctx) Ite(g, a, b *Term) *Term {
	if g.IsTrue() {
		return a
	}
	if g.IsFalse() {
		return b
	}
	if a == b {
		return a
	}
	if a.Sort != b.Sort {
		panic(fmt.Sprintf("ite sort mismatch %v %v", a.Sort, b.Sort))
	}
	if g.Op == ONot {
		return c.Ite(g.A[0], b, a)
	}
	if a.Sort.K == SBool {
		if a.IsTrue() && b.IsFalse() {
			return g
		}
		if a.IsFalse() && b.IsTrue() {
			return c.Not(g)
		}
		if a.IsTrue() {
			return c.Or(g, b)
		}
		if a.IsFalse() {
			return c.And(c.Not(g), b)
		}
		if b.IsTrue() {
			return c.Or(c.Not(g), a)
		}
		if b.IsFalse() {
			return c.And(g, a)
		}
	}
	if a.Op == OIte && a.A[0] == g {
		return c.Ite(g, a.A[1], b)
	}
	if b.Op == OIte && b.A[0] == g {
		return c.Ite(g, a, b.A[2])
	}
	// conditional accumulation: ite(g, acc op k, acc) = acc op ite(g, k, neutral). Keeps chains of
	// guarded updates flat (nested ite-accumulators make solver rewriters blow up).
	if a.Sort.K == SBV {
		if r := c.accumRule(g, a, b, false); r != nil {
			return r
		}
		if r := c.accumRule(g, b, a, true); r != nil {
			return r
		}
	}
	// ite(g, x, ite(h, x, y)) = ite(g∨h, x, y)
	if b.Op == OIte && b.A[1] == a {
		return c.Ite(c.Or(g, b.A[0]), a, b.A[2])
	}
	return c.mk(OIte, a.Sort, 0, "", g, a, b)
}

// accumRule: upd = acc op k  (taken when g, or when !g if neg) and the other arm is acc itself.
func (c *Ctx) accumRule(g, upd, acc *Term, neg bool) *Term {
	var k *Term
	switch upd.Op {
	case OBvXor, OBvOr, OBvAdd, OBvAnd:
		if upd.A[0] == acc {
			k = upd.A[1]
		} else if upd.A[1] == acc {
			k = upd.A[0]
		}
	case OBvSub:
		if upd.A[0] == acc {
			k = upd.A[1]
		}
	}
	if k == nil {
		return nil
	}
	w := acc.Sort.W
	neutral := c.Const(w, 0)
	if upd.Op == OBvAnd {
		neutral = c.Const(w, mask(w))
	}
	var sel *Term
	if neg {
		sel = c.Ite(g, neutral, k)
	} else {
		sel = c.Ite(g, k, neutral)
	}
	return c.bin(upd.Op, acc, sel)
}

func (c *Ctx) Eq(a, b *Term) *Term {
	if a == b {
		return c.True
	}
	if a.Sort != b.Sort {
		panic(fmt.Sprintf("eq sort mismatch %v %v (%s, %s)", a.Sort, b.Sort, c.Show(a, 3), c.Show(b, 3)))
	}
	if a.IsConst() && b.IsConst() {
		return c.Bool(a.K == b.K)
	}
	if a.Sort.K == SBool {
		if a.IsConst() {
			a, b = b, a
		}
		if b.IsTrue() {
			return a
		}
		if b.IsFalse() {
			return c.Not(a)
		}
	}
	if a.IsConst() {
		a, b = b, a
	}
	if b.IsConst() && a.Sort.K == SBV {
		// ite(g, k1, x) == k
		if a.Op == OIte {
			t, e := a.A[1], a.A[2]
			if t.IsConst() || e.IsConst() {
				return c.Ite(a.A[0], c.Eq(t, b), c.Eq(e, b))
			}
		}
		// zero_extend(x) == k
		if a.Op == OZeroExt {
			iw := a.A[0].Sort.W
			if b.K&^mask(iw) != 0 {
				return c.False
			}
			return c.Eq(a.A[0], c.Const(iw, b.K))
		}
		// x ^ k1 == k  ->  x == k^k1 ; x + k1 == k -> x == k-k1
		if a.Op == OBvXor && a.A[1].IsConst() {
			return c.Eq(a.A[0], c.Const(a.Sort.W, b.K^a.A[1].K))
		}
		if a.Op == OBvAdd && a.A[1].IsConst() {
			return c.Eq(a.A[0], c.Const(a.Sort.W, b.K-a.A[1].K))
		}
		if a.Op == OConcat {
			lw := a.A[1].Sort.W
			return c.And(c.Eq(a.A[0], c.Const(a.A[0].Sort.W, b.K>>uint(lw))), c.Eq(a.A[1], c.Const(lw, b.K)))
		}
	}
	if a.ID > b.ID {
		a, b = b, a
	}
	return c.mk(OEq, BoolSort, 0, "", a, b)
}

func (c *Ctx) Ne(a, b *Term) *Term { return c.Not(c.Eq(a, b)) }

// ---------- bit-vectors ----------

func sx(v uint64, w int) int64 {
	if w >= 64 {
		return int64(v)
	}
	if v&(1<<uint(w-1)) != 0 {
		return int64(v | ^mask(w))
	}
	return int64(v)
}

func (c *Ctx) bin(op Op, a, b *Term) *Term {
	if a.Sort != b.Sort || a.Sort.K != SBV {
		panic(fmt.Sprintf("bv binop %s sort mismatch %v %v: %s | %s", opNames[op], a.Sort, b.Sort, c.Show(a, 3), c.Show(b, 3)))
	}
	w := a.Sort.W
	m := mask(w)
	if a.IsConst() && b.IsConst() {
		x, y := a.K, b.K
		var r uint64
		switch op {
		case OBvAdd:
			r = x + y
		case OBvSub:
			r = x - y
		case OBvMul:
			r = x * y
		case OBvUDiv:
			if y == 0 {
				r = m
			} else {
				r = x / y
			}
		case OBvURem:
			if y == 0 {
				r = x
			} else {
				r = x % y
			}
		case OBvSDiv:
			sxv, syv := sx(x, w), sx(y, w)
			if syv == 0 {
				if sxv < 0 {
					r = 1
				} else {
					r = m
				}
			} else if syv == -1 {
				r = uint64(-sxv)
			} else {
				r = uint64(sxv / syv)
			}
		case OBvSRem:
			sxv, syv := sx(x, w), sx(y, w)
			if syv == 0 {
				r = x
			} else if syv == -1 {
				r = 0
			} else {
				r = uint64(sxv % syv)
			}
		case OBvAnd:
			r = x & y
		case OBvOr:
			r = x | y
		case OBvXor:
			r = x ^ y
		case OBvShl:
			if y >= uint64(w) {
				r = 0
			} else {
				r = x << y
			}
		case OBvLShr:
			if y >= uint64(w) {
				r = 0
			} else {
				r = x >> y
			}
		case OBvAShr:
			s := sx(x, w)
			if y >= uint64(w) {
				y = uint64(w - 1)
			}
			r = uint64(s >> y)
		default:
			panic("bin const")
		}
		return c.Const(w, r)
	}
	// canonical order for commutative ops: constant second
	switch op {
	case OBvAdd, OBvMul, OBvAnd, OBvOr, OBvXor:
		if a.IsConst() || (!b.IsConst() && a.ID > b.ID) {
			a, b = b, a
		}
	}
	switch op {
	case OBvAdd:
		if b.IsConst() && b.K == 0 {
			return a
		}
		if b.IsConst() && a.Op == OBvAdd && a.A[1].IsConst() {
			return c.bin(OBvAdd, a.A[0], c.Const(w, a.A[1].K+b.K))
		}
		if b.IsConst() && a.Op == OIte && a.A[1].IsConst() && a.A[2].IsConst() {
			return c.Ite(a.A[0], c.Const(w, a.A[1].K+b.K), c.Const(w, a.A[2].K+b.K))
		}
	case OBvSub:
		if b.IsConst() {
			return c.bin(OBvAdd, a, c.Const(w, -b.K))
		}
		if a == b {
			return c.Const(w, 0)
		}
	case OBvMul:
		if b.IsConst() {
			if b.K == 0 {
				return b
			}
			if b.K == 1 {
				return a
			}
		}
	case OBvAnd:
		if a == b {
			return a
		}
		if b.IsConst() {
			if b.K == 0 {
				return b
			}
			if b.K == m {
				return a
			}
			// contiguous mask: x & 0..01..10..0 = concat(0, x[hi:lo], 0) — bit-slicing exposes the
			// structure of field-packing code to the extract rules
			if a.Op != OVar {
				lo := bits.TrailingZeros64(b.K)
				run := b.K >> uint(lo)
				if run&(run+1) == 0 {
					hi := lo + bits.Len64(run) - 1
					mid := c.Extract(a, hi, lo)
					res := mid
					if lo > 0 {
						res = c.Concat(res, c.Const(lo, 0))
					}
					if hi < w-1 {
						res = c.Concat(c.Const(w-1-hi, 0), res)
					}
					return res
				}
			}
			if a.Op == OBvAnd && a.A[1].IsConst() {
				return c.bin(OBvAnd, a.A[0], c.Const(w, a.A[1].K&b.K))
			}
			if a.Op == OIte && a.A[1].IsConst() && a.A[2].IsConst() {
				return c.Ite(a.A[0], c.Const(w, a.A[1].K&b.K), c.Const(w, a.A[2].K&b.K))
			}
			if a.Op == OZeroExt && b.K&mask(a.A[0].Sort.W) == mask(a.A[0].Sort.W) {
				return a
			}
			// (x | k1) & k2 -> (x & k2) | (k1 & k2)
			if a.Op == OBvOr && a.A[1].IsConst() {
				return c.bin(OBvOr, c.bin(OBvAnd, a.A[0], b), c.Const(w, a.A[1].K&b.K))
			}
		}
	case OBvOr:
		if a == b {
			return a
		}
		if b.IsConst() {
			if b.K == 0 {
				return a
			}
			if b.K == m {
				return b
			}
			if a.Op == OBvOr && a.A[1].IsConst() {
				return c.bin(OBvOr, a.A[0], c.Const(w, a.A[1].K|b.K))
			}
		}
	case OBvXor:
		if a == b {
			return c.Const(w, 0)
		}
		if b.IsConst() && b.K == 0 {
			return a
		}
		if b.IsConst() && a.Op == OBvXor && a.A[1].IsConst() {
			return c.bin(OBvXor, a.A[0], c.Const(w, a.A[1].K^b.K))
		}
		// x ^ (x ^ y) = y
		if b.Op == OBvXor {
			if b.A[0] == a {
				return b.A[1]
			}
			if b.A[1] == a {
				return b.A[0]
			}
		}
		if a.Op == OBvXor {
			if a.A[0] == b {
				return a.A[1]
			}
			if a.A[1] == b {
				return a.A[0]
			}
		}
	case OBvShl, OBvLShr, OBvAShr:
		if b.IsConst() && b.K == 0 {
			return a
		}
		if b.IsConst() && b.K >= uint64(w) && op != OBvAShr {
			return c.Const(w, 0)
		}
		if a.IsConst() && a.K == 0 {
			return a
		}
		if op == OBvLShr && b.IsConst() {
			// use extract so that bit-level simplifications apply
			k := int(b.K)
			return c.ZeroExt(c.Extract(a, w-1, k), k)
		}
		if op == OBvShl && b.IsConst() {
			k := int(b.K)
			return c.Concat(c.Extract(a, w-1-k, 0), c.Const(k, 0))
		}
	case OBvUDiv, OBvURem:
		if b.IsConst() && b.K != 0 && b.K&(b.K-1) == 0 {
			k := bits.TrailingZeros64(b.K)
			if op == OBvUDiv {
				return c.bin(OBvLShr, a, c.Const(w, uint64(k)))
			}
			return c.bin(OBvAnd, a, c.Const(w, b.K-1))
		}
	}
	return c.mk(op, a.Sort, 0, "", a, b)
}

func (c *Ctx) Add(a, b *Term) *Term  { return c.bin(OBvAdd, a, b) }
func (c *Ctx) Sub(a, b *Term) *Term  { return c.bin(OBvSub, a, b) }
func (c *Ctx) Mul(a, b *Term) *Term  { return c.bin(OBvMul, a, b) }
func (c *Ctx) UDiv(a, b *Term) *Term { return c.bin(OBvUDiv, a, b) }
func (c *Ctx) URem(a, b *Term) *Term { return c.bin(OBvURem, a, b) }
func (c *Ctx) SDiv(a, b *Term) *Term { return c.bin(OBvSDiv, a, b) }
func (c *Ctx) SRem(a, b *Term) *Term { return c.bin(OBvSRem, a, b) }
func (c *Ctx) BvAnd(a, b *Term) *Term { return c.bin(OBvAnd, a, b) }
func (c *Ctx) BvOr(a, b *Term) *Term  { return c.bin(OBvOr, a, b) }
func (c *Ctx) BvXor(a, b *Term) *Term { return c.bin(OBvXor, a, b) }
func (c *Ctx) Shl(a, b *Term) *Term   { return c.bin(OBvShl, a, b) }
func (c *Ctx) LShr(a, b *Term) *Term  { return c.bin(OBvLShr, a, b) }
func (c *Ctx) AShr(a, b *Term) *Term  { return c.bin(OBvAShr, a, b) }

func (c *Ctx) BvNot(a *Term) *Term {
	if a.IsConst() {
		return c.Const(a.Sort.W, ^a.K)
	}
	if a.Op == OBvNot {
		return a.A[0]
	}
	return c.mk(OBvNot, a.Sort, 0, "", a)
}

func (c *Ctx) Neg(a *Term) *Term {
	if a.IsConst() {
		return c.Const(a.Sort.W, -a.K)
	}
	if a.Op == OBvNeg {
		return a.A[0]
	}
	return c.mk(OBvNeg, a.Sort, 0, "", a)
}

func (c *Ctx) cmp(op Op, a, b *Term) *Term {
	if a.Sort != b.Sort || a.Sort.K != SBV {
		panic(fmt.Sprintf("bv cmp sort mismatch %v %v", a.Sort, b.Sort))
	}
	w := a.Sort.W
	if a.IsConst() && b.IsConst() {
		switch op {
		case OBvUlt:
			return c.Bool(a.K < b.K)
		case OBvUle:
			return c.Bool(a.K <= b.K)
		case OBvSlt:
			return c.Bool(sx(a.K, w) < sx(b.K, w))
		case OBvSle:
			return c.Bool(sx(a.K, w) <= sx(b.K, w))
		}
	}
	if a == b {
		return c.Bool(op == OBvUle || op == OBvSle)
	}
	switch op {
	case OBvUlt:
		if b.IsConst() && b.K == 0 {
			return c.False
		}
		if b.IsConst() && b.K == 1 {
			return c.Eq(a, c.Const(w, 0))
		}
		if a.IsConst() && a.K == 0 {
			return c.Ne(b, c.Const(w, 0))
		}
	case OBvUle:
		if a.IsConst() && a.K == 0 {
			return c.True
		}
		if b.IsConst() && b.K == mask(w) {
			return c.True
		}
	}
	// x/c < k  <=>  x < k*c   for constants c > 0, k > 0 (truncated division), when k*c does not overflow
	if op == OBvSlt && b.IsConst() && a.Op == OBvSDiv && a.A[1].IsConst() {
		cc, kk := sx(a.A[1].K, w), sx(b.K, w)
		if cc > 0 && kk > 0 && kk < (int64(1)<<uint(w-2))/cc {
			return c.cmp(OBvSlt, a.A[0], c.Const(w, uint64(kk*cc)))
		}
	}
	// push comparisons with constants through ite-of-constants
	if b.IsConst() && a.Op == OIte && a.A[1].IsConst() && a.A[2].IsConst() {
		return c.Ite(a.A[0], c.cmp(op, a.A[1], b), c.cmp(op, a.A[2], b))
	}
	if a.IsConst() && b.Op == OIte && b.A[1].IsConst() && b.A[2].IsConst() {
		return c.Ite(b.A[0], c.cmp(op, a, b.A[1]), c.cmp(op, a, b.A[2]))
	}
	// zero-extended value vs constant (unsigned, or signed with clear sign bits)
	if a.Op == OZeroExt && b.IsConst() {
		iw := a.A[0].Sort.W
		signedOK := op == OBvUlt || op == OBvUle || (iw < w && sx(b.K, w) >= 0)
		if signedOK {
			if b.K > mask(iw) {
				return c.True
			}
			if op == OBvUlt || op == OBvSlt {
				return c.cmp(OBvUlt, a.A[0], c.Const(iw, b.K))
			}
			return c.cmp(OBvUle, a.A[0], c.Const(iw, b.K))
		}
		if iw < w && sx(b.K, w) < 0 { // non-negative < negative
			return c.False
		}
	}
	if b.Op == OZeroExt && a.IsConst() {
		iw := b.A[0].Sort.W
		signedOK := op == OBvUlt || op == OBvUle || (iw < w && sx(a.K, w) >= 0)
		if signedOK {
			if a.K > mask(iw) {
				return c.False
			}
			if op == OBvUlt || op == OBvSlt {
				return c.cmp(OBvUlt, c.Const(iw, a.K), b.A[0])
			}
			return c.cmp(OBvUle, c.Const(iw, a.K), b.A[0])
		}
		if iw < w && sx(a.K, w) < 0 {
			return c.True
		}
	}
	return c.mk(op, BoolSort, 0, "", a, b)
}

func (c *Ctx) Ult(a, b *Term) *Term { return c.cmp(OBvUlt, a, b) }
func (c *Ctx) Ule(a, b *Term) *Term { return c.cmp(OBvUle, a, b) }
func (c *Ctx) Slt(a, b *Term) *Term { return c.cmp(OBvSlt, a, b) }
func (c *Ctx) Sle(a, b *Term) *Term { return c.cmp(OBvSle, a, b) }

func (c *Ctx) Concat(hi, lo *Term) *Term {
	if hi.Sort.W == 0 {
		return lo
	}
	if lo.Sort.W == 0 {
		return hi
	}
	w := hi.Sort.W + lo.Sort.W
	if hi.IsConst() && lo.IsConst() && w <= 64 {
		return c.Const(w, hi.K<<uint(lo.Sort.W)|lo.K)
	}
	if hi.IsConst() && hi.K == 0 {
		return c.ZeroExt(lo, hi.Sort.W)
	}
	// concat(extract(x,h,m+1), extract(x,m,l)) = extract(x,h,l)
	if hi.Op == OExtract && lo.Op == OExtract && hi.A[0] == lo.A[0] {
		hh, hl := int(hi.K>>8), int(hi.K&255)
		lh, ll := int(lo.K>>8), int(lo.K&255)
		if hl == lh+1 {
			return c.Extract(hi.A[0], hh, ll)
		}
	}
	return c.mk(OConcat, BV(w), 0, "", hi, lo)
}

// Extract bits hi..lo inclusive. hi < lo yields a zero-width term (only valid inside Concat/ZeroExt).
// Memoised: pushing an extract through shared ite-DAGs would otherwise revisit subterms exponentially.
func (c *Ctx) Extract(a *Term, hi, lo int) *Term {
	if hi < lo {
		return &Term{ID: -1, Op: OConst, Sort: BV(0)}
	}
	if a.Op == OIte || a.Op == OBvAnd || a.Op == OBvOr || a.Op == OBvXor || a.Op == OConcat {
		key := [3]int32{a.ID, int32(hi), int32(lo)}
		if r, ok := c.extractMemo[key]; ok {
			return r
		}
		r := c.extract0(a, hi, lo)
		if c.extractMemo == nil {
			c.extractMemo = map[[3]int32]*Term{}
		}
		c.extractMemo[key] = r
		return r
	}
	return c.extract0(a, hi, lo)
}

func (c *Ctx) extract0(a *Term, hi, lo int) *Term {
	w := hi - lo + 1
	if lo == 0 && w == a.Sort.W {
		return a
	}
	if hi >= a.Sort.W {
		panic("extract out of range")
	}
	switch a.Op {
	case OConst:
		return c.Const(w, a.K>>uint(lo))
	case OExtract:
		l0 := int(a.K & 255)
		return c.Extract(a.A[0], hi+l0, lo+l0)
	case OConcat:
		lw := a.A[1].Sort.W
		if hi < lw {
			return c.Extract(a.A[1], hi, lo)
		}
		if lo >= lw {
			return c.Extract(a.A[0], hi-lw, lo-lw)
		}
		return c.Concat(c.Extract(a.A[0], hi-lw, 0), c.Extract(a.A[1], lw-1, lo))
	case OZeroExt:
		iw := a.A[0].Sort.W
		if hi < iw {
			return c.Extract(a.A[0], hi, lo)
		}
		if lo >= iw {
			return c.Const(w, 0)
		}
		return c.ZeroExt(c.Extract(a.A[0], iw-1, lo), hi-iw+1)
	case OSignExt:
		iw := a.A[0].Sort.W
		if hi < iw {
			return c.Extract(a.A[0], hi, lo)
		}
	case OBvAnd, OBvOr, OBvXor:
		x, y := c.Extract(a.A[0], hi, lo), c.Extract(a.A[1], hi, lo)
		return c.bin(a.Op, x, y)
	case OBvNot:
		return c.BvNot(c.Extract(a.A[0], hi, lo))
	case OIte:
		if w <= 8 || a.A[1].IsConst() || a.A[2].IsConst() {
			return c.Ite(a.A[0], c.Extract(a.A[1], hi, lo), c.Extract(a.A[2], hi, lo))
		}
	case OBvAdd, OBvSub, OBvMul:
		if lo == 0 { // low bits only depend on low bits
			return c.bin(a.Op, c.Extract(a.A[0], hi, 0), c.Extract(a.A[1], hi, 0))
		}
	}
	return c.mk(OExtract, BV(w), uint64(hi)<<8|uint64(lo), "", a)
}

func (c *Ctx) ZeroExt(a *Term, n int) *Term {
	if n == 0 {
		return a
	}
	if a.Sort.W == 0 {
		return c.Const(n, 0)
	}
	if a.IsConst() {
		return c.Const(a.Sort.W+n, a.K)
	}
	if a.Op == OZeroExt {
		return c.ZeroExt(a.A[0], n+int(a.K))
	}
	if a.Op == OIte && a.A[1].IsConst() && a.A[2].IsConst() {
		return c.Ite(a.A[0], c.ZeroExt(a.A[1], n), c.ZeroExt(a.A[2], n))
	}
	return c.mk(OZeroExt, BV(a.Sort.W+n), uint64(n), "", a)
}

func (c *Ctx) SignExt(a *Term, n int) *Term {
	if n == 0 {
		return a
	}
	if a.IsConst() {
		return c.Const(a.Sort.W+n, uint64(sx(a.K, a.Sort.W)))
	}
	if a.Op == OZeroExt { // sign bit is zero
		return c.ZeroExt(a.A[0], n+int(a.K))
	}
	if a.Op == OIte && a.A[1].IsConst() && a.A[2].IsConst() {
		return c.Ite(a.A[0], c.SignExt(a.A[1], n), c.SignExt(a.A[2], n))
	}
	return c.mk(OSignExt, BV(a.Sort.W+n), uint64(n), "", a)
}

// Resize converts a to width w, sign- or zero-extending or truncating.
func (c *Ctx) Resize(a *Term, w int, signed bool) *Term {
	aw := a.Sort.W
	switch {
	case w == aw:
		return a
	case w < aw:
		return c.Extract(a, w-1, 0)
	case signed:
		return c.SignExt(a, w-aw)
	default:
		return c.ZeroExt(a, w-aw)
	}
}

// ---------- arrays ----------

func (c *Ctx) ConstArr(iw int, v *Term) *Term {
	return c.mk(OConstArr, ArrSort(iw, v.Sort.W), 0, "", v)
}

func (c *Ctx) Select(a, i *Term) *Term {
	switch a.Op {
	case OConstArr:
		return a.A[0]
	case OStore:
		// read-over-write, always expanded: array terms never nest below a select
		e := c.Eq(a.A[1], i)
		if e.IsTrue() {
			return a.A[2]
		}
		if e.IsFalse() {
			return c.Select(a.A[0], i)
		}
		return c.Ite(e, a.A[2], c.Select(a.A[0], i))
	case OIte:
		key := [2]int32{a.ID, i.ID}
		if r, ok := c.selectMemo[key]; ok {
			return r
		}
		r := c.Ite(a.A[0], c.Select(a.A[1], i), c.Select(a.A[2], i))
		if c.selectMemo == nil {
			c.selectMemo = map[[2]int32]*Term{}
		}
		c.selectMemo[key] = r
		return r
	}
	return c.mk(OSelect, BV(a.Sort.W), 0, "", a, i)
}

func (c *Ctx) Store(a, i, v *Term) *Term {
	if a.Op == OStore && a.A[1] == i {
		a = a.A[0]
	}
	if v.Op == OSelect && v.A[0] == a && v.A[1] == i {
		return a
	}
	return c.mk(OStore, a.Sort, 0, "", a, i, v)
}

func (c *Ctx) Apply(name string, s Sort, args ...*Term) *Term {
	return c.mk(OApply, s, 0, name, args...)
}

// ---------- floating point (float64 only) ----------
var FP64 = Sort{K: SFP}

func (c *Ctx) FpFromBits(a *Term) *Term { return c.mk(OFpFromBits, FP64, 0, "", a) }

func fpConst(t *Term) (float64, bool) {
	if t.Op == OFpFromBits && t.A[0].IsConst() {
		return math.Float64frombits(t.A[0].K), true
	}
	return 0, false
}

func (c *Ctx) fpOf(f float64) *Term { return c.FpFromBits(c.Const(64, math.Float64bits(f))) }

// FP operations fold on constants with Go's float64 arithmetic (IEEE-754 binary64, round to nearest
// even — the semantics the SMT encoding uses).
func (c *Ctx) FpBin(op Op, a, b *Term) *Term {
	if x, ok := fpConst(a); ok {
		if y, ok := fpConst(b); ok {
			switch op {
			case OFpAdd:
				return c.fpOf(x + y)
			case OFpSub:
				return c.fpOf(x - y)
			case OFpMul:
				return c.fpOf(x * y)
			case OFpDiv:
				return c.fpOf(x / y)
			}
		}
	}
	return c.mk(op, FP64, 0, "", a, b)
}
func (c *Ctx) FpCmp(op Op, a, b *Term) *Term {
	if x, ok := fpConst(a); ok {
		if y, ok := fpConst(b); ok {
			switch op {
			case OFpLt:
				return c.Bool(x < y)
			case OFpLe:
				return c.Bool(x <= y)
			case OFpEq:
				return c.Bool(x == y)
			}
		}
	}
	return c.mk(op, BoolSort, 0, "", a, b)
}
func (c *Ctx) FpNeg(a *Term) *Term {
	if x, ok := fpConst(a); ok {
		return c.fpOf(-x)
	}
	return c.mk(OFpNeg, FP64, 0, "", a)
}
func (c *Ctx) FpFromInt(a *Term, signed bool) *Term {
	if a.IsConst() {
		if signed {
			return c.fpOf(float64(a.SignedVal()))
		}
		return c.fpOf(float64(a.K))
	}
	if signed {
		return c.mk(OFpFromSInt, FP64, 0, "", a)
	}
	return c.mk(OFpFromUInt, FP64, 0, "", a)
}
func (c *Ctx) FpToInt(a *Term, w int, signed bool) *Term {
	if x, ok := fpConst(a); ok && !math.IsNaN(x) && math.Abs(x) < 9e18 {
		if signed {
			return c.Const(w, uint64(int64(x)))
		}
		if x >= 0 {
			return c.Const(w, uint64(x))
		}
	}
	if signed {
		return c.mk(OFpToSInt, BV(w), uint64(w), "", a)
	}
	return c.mk(OFpToUInt, BV(w), uint64(w), "", a)
}

// ---------- debugging ----------

func (c *Ctx) Show(t *Term, depth int) string {
	switch t.Op {
	case OConst:
		if t.Sort.K == SBool {
			return fmt.Sprint(t.K == 1)
		}
		return fmt.Sprintf("%d:%d", t.K, t.Sort.W)
	case OVar:
		return t.Name
	}
	if depth == 0 {
		return fmt.Sprintf("#%d", t.ID)
	}
	name := opNames[t.Op]
	if name == "" {
		name = fmt.Sprintf("op%d[%d]", t.Op, t.K)
	}
	s := "(" + name
	for _, a := range t.A {
		s += " " + c.Show(a, depth-1)
	}
	return s + ")"
}
