package main

// Intrinsics: harness vocabulary (vx*), math/bits, environment models.

import (
	"fmt"
	"math"
	"os"
	"go/token"
	"go/types"
	"strings"

	"golang.org/x/tools/go/ssa"
)

func fpConstArg(a *Term) (float64, bool) {
	if a == nil {
		return 0, false
	}
	return fpConst(a)
}

func (x *Exec) knownStr(v Value, what string) string {
	s, ok := v.(*StrV)
	if !ok || !s.Known {
		s2 := x.strNormalize(v.(*StrV))
		if s2.Known {
			return s2.S
		}
		x.fail("%s: string argument must be concrete", what)
	}
	return s.S
}

func (x *Exec) nondetVar(name string, s Sort) *Term {
	if _, dup := x.nondet[name]; dup {
		x.fail("nondet name used twice: %s", name)
	}
	x.nondet[name] = 1
	return x.c.Var(name, s)
}

// noopPkgs: calls into these packages are environment (logging, formatting for logs, profiling).
var noopPkgPrefixes = []string{
	"github.com/op/go-logging",
	"github.com/frankkopp/FrankyGo/internal/logging",
	"golang.org/x/text/",
	"github.com/pkg/profile",
	"log",
	"runtime",
	"runtime/debug",
}

func pkgPathOf(fn *ssa.Function) string {
	if fn.Pkg != nil {
		return fn.Pkg.Pkg.Path()
	}
	if fn.Signature.Recv() != nil {
		t := fn.Signature.Recv().Type()
		if p, ok := t.(*types.Pointer); ok {
			t = p.Elem()
		}
		if n, ok := t.(*types.Named); ok && n.Obj().Pkg() != nil {
			return n.Obj().Pkg().Path()
		}
	}
	if fn.Origin() != nil && fn.Origin().Pkg != nil {
		return fn.Origin().Pkg.Pkg.Path()
	}
	return ""
}

// opaqueString returns a fresh unknown string of bounded length (used for formatted text that the
// properties never inspect).
func (x *Exec) opaqueString() *StrV {
	return &StrV{Known: true, S: "<opaque>"}
}

func (x *Exec) intrinsic(fn *ssa.Function, name string, args []Value, g *Term, site token.Pos) (Value, *Term, bool) {
	c := x.c
	short := fn.Name()
	// ---- harness vocabulary ----
	if strings.HasPrefix(short, "vx") && fn.Signature.Recv() == nil && len(fn.Blocks) == 0 {
		return x.vxIntrinsic(fn, short, args, g, site), nil, true
	}
	pkg := pkgPathOf(fn)
	switch pkg {
	case "math/bits":
		a, _ := args[0].(*Term)
		switch short {
		case "TrailingZeros64", "TrailingZeros32", "TrailingZeros16", "TrailingZeros8", "TrailingZeros":
			return x.ctz(a), nil, true
		case "LeadingZeros64", "LeadingZeros32", "LeadingZeros16", "LeadingZeros8", "LeadingZeros":
			return x.clz(a), nil, true
		case "OnesCount64", "OnesCount32", "OnesCount16", "OnesCount8", "OnesCount":
			return x.popcount(a), nil, true
		case "Len64", "Len":
			return c.Sub(c.Const(64, uint64(a.Sort.W)), x.clz(a)), nil, true
		}
	case "github.com/frankkopp/FrankyGo/internal/assert":
		// release build: Assert is a no-op (assert.DEBUG == false); keep it so.
		x.modeled["assert.*: no-op (release build, DEBUG=false)"]++
		return x.zeroResult(fn.Signature), nil, true
	case "os":
		if short == "Exit" {
			x.modeled["os.Exit: path ends (recorded as panic obligation)"]++
			x.addOblig("panic", "os.Exit@"+x.posStr(site), g, site)
			return nil, g, true
		}
	case "fmt":
		switch short {
		case "Sprintf", "Sprint", "Sprintln":
			x.modeled["fmt.Sprint*: opaque string"]++
			return x.opaqueString(), nil, true
		case "Printf", "Println", "Print", "Fprintf", "Fprintln", "Fprint":
			x.modeled["fmt.Print*: no-op"]++
			return x.zeroResult(fn.Signature), nil, true
		case "Errorf":
			x.modeled["fmt.Errorf: opaque non-nil error"]++
			return &IfaceV{T: types.Universe.Lookup("error").Type(), V: x.opaqueString()}, nil, true
		}
	case "errors":
		if short == "New" {
			x.modeled["errors.New: opaque non-nil error"]++
			return &IfaceV{T: types.Universe.Lookup("error").Type(), V: args[0]}, nil, true
		}
	case "math":
		a, _ := args[0].(*Term)
		if f, ok := fpConstArg(a); ok {
			switch short {
			case "Log2":
				return c.fpOf(math.Log2(f)), nil, true
			case "Floor":
				return c.fpOf(math.Floor(f)), nil, true
			case "Ceil":
				return c.fpOf(math.Ceil(f)), nil, true
			case "Abs":
				return c.fpOf(math.Abs(f)), nil, true
			}
		}
		switch short {
		case "Log2":
			if a != nil && a.Op == OFpFromUInt {
				x.modeled["math.Floor(math.Log2(float64(u))) for unsigned integer u>0: index of highest set bit (exact for integers < 2^53; differential self-test)"]++
				return c.Apply("vx.log2.uint", FP64, a.A[0]), nil, true
			}
		case "Floor":
			if a != nil && a.Op == OApply && a.Name == "vx.log2.uint" {
				return c.Apply("vx.floorlog2.uint", FP64, a.A[0]), nil, true
			}
		}
	case "golang.org/x/sync/semaphore":
		// semaphore.Weighted{size, cur, ...}: single-thread view on the real counters. An Acquire
		// that cannot succeed blocks; in the sequentialised harnesses nobody else can release at that
		// point, so it is reported as a "blocks forever" obligation and the path ends.
		switch short {
		case "NewWeighted":
			et := fn.Signature.Results().At(0).Type().(*types.Pointer).Elem()
			o := x.newObject(et, x.zero(et), "semaphore")
			x.store(&PtrV{Obj: o, Path: []PathElem{{Field: 0}}}, args[0], c.True)
			return &PtrV{Obj: o}, nil, true
		case "Acquire", "TryAcquire":
			x.modeled["semaphore.Weighted: real size/cur counters, blocking Acquire = blocks-forever obligation (no other releaser in the sequentialised harness)"]++
			n := args[len(args)-1].(*Term)
			size := x.load(x.ptrExtend(args[0], PathElem{Field: 0})).(*Term)
			curP := x.ptrExtend(args[0], PathElem{Field: 1})
			cur := x.load(curP).(*Term)
			ok := c.Sle(c.Add(cur, n), size)
			if short == "TryAcquire" {
				x.store(curP, c.Add(cur, n), c.And(g, ok))
				return ok, nil, true
			}
			id := "blocks-forever: semaphore Acquire with no possible releaser @" + x.posStr(site)
			if v, has := x.opts["deadlock-id"]; has {
				id = v
			}
			x.addOblig("assert", id, c.And(g, c.Not(ok)), site)
			x.store(curP, c.Add(cur, n), c.And(g, ok))
			return &IfaceV{}, c.And(g, c.Not(ok)), true
		case "Release":
			n := args[1].(*Term)
			curP := x.ptrExtend(args[0], PathElem{Field: 1})
			cur := x.load(curP).(*Term)
			x.runtimeCheck("semaphore-released-more-than-held", g, c.Slt(c.Sub(cur, n), c.Const(64, 0)), site)
			x.store(curP, c.Sub(cur, n), g)
			return nil, nil, true
		}
	case "context":
		if short == "TODO" || short == "Background" {
			return &IfaceV{}, nil, true
		}
	case "sync":
		switch name {
		case "(*sync.Mutex).Lock":
			// single-thread view: the mutex's own state word records "held by this goroutine";
			// locking it again can never succeed: self-deadlock (the engine hangs)
			st := x.ptrExtend(args[0], PathElem{Field: 0})
			cur := x.load(st).(*Term)
			x.modeled["sync.Mutex: state word = held by the modelled goroutine; re-locking is a deadlock obligation"]++
			did := "deadlock: sync.Mutex locked while already held by the same goroutine @" + x.posStr(site)
			if v, ok := x.opts["deadlock-id"]; ok {
				did = v
			}
			x.addOblig("assert", did, c.And(g, c.Ne(cur, c.Const(32, 0))), site)
			x.store(st, c.Const(32, 1), g)
			return nil, nil, true
		case "(*sync.Mutex).Unlock":
			st := x.ptrExtend(args[0], PathElem{Field: 0})
			cur := x.load(st).(*Term)
			x.runtimeCheck("unlock-of-unlocked-mutex", g, c.Eq(cur, c.Const(32, 0)), site)
			x.store(st, c.Const(32, 0), g)
			return nil, nil, true
		case "(*sync.WaitGroup).Add", "(*sync.WaitGroup).Done", "(*sync.WaitGroup).Wait":
			x.modeled["sync.WaitGroup: no-op (goroutines inlined sequentially)"]++
			return nil, nil, true
		}
	case "time":
		switch short {
		case "Now":
			x.modeled["time.Now: opaque"]++
			return x.zero(fn.Signature.Results().At(0).Type()), nil, true
		case "Since":
			x.modeled["time.Since: nondeterministic non-negative duration"]++
			v := c.Fresh("time.Since", BV(64))
			x.assumes = append(x.assumes, c.Sle(c.Const(64, 0), v))
			return v, nil, true
		case "Sleep":
			x.modeled["time.Sleep: no-op"]++
			return nil, nil, true
		}
	}
	if r, ok := x.bitboardIntrinsic(fn, short, args, g); ok {
		return r, nil, true
	}
	if r, died, ok := x.libModel(fn, pkg, short, name, args, g, site); ok {
		return r, died, true
	}
	for _, p := range noopPkgPrefixes {
		if pkg == p || (strings.HasSuffix(p, "/") && strings.HasPrefix(pkg, p)) {
			x.modeled[pkg+".*: no-op environment (logging/formatting)"]++
			return x.havocResult(fn.Signature), nil, true
		}
	}
	return nil, nil, false
}

// havocResult returns zero values for environment calls (results of logging calls are never used
// in a way the properties depend on).
func (x *Exec) havocResult(sig *types.Signature) Value { return x.zeroResult(sig) }

func (x *Exec) bitboardIntrinsic(fn *ssa.Function, short string, args []Value, g *Term) (Value, bool) {
	if short != "PopLsb" || len(x.bitScanStack) == 0 || fn.Signature.Recv() == nil {
		return nil, false
	}
	top := x.bitScanStack[len(x.bitScanStack)-1]
	pa, ok1 := args[0].(*PtrV)
	pb, ok2 := top.addr.(*PtrV)
	if !ok1 || !ok2 || !samePtr(pa, pb) {
		return nil, false
	}
	c := x.c
	cur := x.load(pa).(*Term)
	x.store(pa, c.BvAnd(cur, c.Const(64, ^(uint64(1)<<uint(top.sq)))), g)
	rs, _ := x.scalarSort(fn.Signature.Results().At(0).Type())
	return c.Const(rs.W, uint64(top.sq)), true
}

func (x *Exec) ctz(a *Term) *Term {
	c := x.c
	w := a.Sort.W
	r := c.Const(64, uint64(w))
	for i := w - 1; i >= 0; i-- {
		r = c.Ite(c.Eq(c.Extract(a, i, i), c.Const(1, 1)), c.Const(64, uint64(i)), r)
	}
	return r
}

func (x *Exec) clz(a *Term) *Term {
	c := x.c
	w := a.Sort.W
	r := c.Const(64, uint64(w))
	for i := 0; i < w; i++ {
		r = c.Ite(c.Eq(c.Extract(a, i, i), c.Const(1, 1)), c.Const(64, uint64(w-1-i)), r)
	}
	return r
}

func (x *Exec) popcount(a *Term) *Term {
	c := x.c
	w := a.Sort.W
	// tree adder over 7-bit values
	terms := make([]*Term, w)
	for i := 0; i < w; i++ {
		terms[i] = c.ZeroExt(c.Extract(a, i, i), 6)
	}
	for len(terms) > 1 {
		var nx []*Term
		for i := 0; i+1 < len(terms); i += 2 {
			nx = append(nx, c.Add(terms[i], terms[i+1]))
		}
		if len(terms)%2 == 1 {
			nx = append(nx, terms[len(terms)-1])
		}
		terms = nx
	}
	return c.ZeroExt(terms[0], 57)
}

func (x *Exec) vxIntrinsic(fn *ssa.Function, short string, args []Value, g *Term, site token.Pos) Value {
	c := x.c
	switch short {
	case "vxU64", "vxI64", "vxInt":
		return x.nondetVar(x.knownStr(args[0], short), BV(64))
	case "vxU32", "vxI32":
		return x.nondetVar(x.knownStr(args[0], short), BV(32))
	case "vxU16", "vxI16":
		return x.nondetVar(x.knownStr(args[0], short), BV(16))
	case "vxU8", "vxI8":
		return x.nondetVar(x.knownStr(args[0], short), BV(8))
	case "vxBool":
		return x.nondetVar(x.knownStr(args[0], short), BoolSort)
	case "vxName":
		// vxName(base string, i int) string — builds "base[i]" from concrete arguments
		i, ok := args[1].(*Term)
		if !ok || !i.IsConst() {
			x.fail("vxName: index must be concrete")
		}
		return &StrV{Known: true, S: fmt.Sprintf("%s[%d]", x.knownStr(args[0], short), i.SignedVal())}
	case "vxAssume":
		x.assumes = append(x.assumes, c.Implies(g, args[0].(*Term)))
		return nil
	case "vxUFI16":
		// vxUFI16(name, a, b int, g float64) int16: uninterpreted function application
		nm := x.knownStr(args[0], short)
		return c.Apply("uf."+nm, BV(16), args[1].(*Term), args[2].(*Term), args[3].(*Term))
	case "vxUFBool":
		nm := x.knownStr(args[0], short)
		return c.Apply("uf."+nm, BoolSort, args[1].(*Term))
	case "vxSemFree":
		sp := args[0]
		if iv, ok := sp.(*IfaceV); ok {
			sp = iv.V
		}
		return c.Eq(x.load(x.ptrExtend(sp, PathElem{Field: 1})).(*Term), c.Const(64, 0))
	case "vxBoolN", "vxI64N":
		i, ok := args[1].(*Term)
		if !ok || !i.IsConst() {
			// the occurrence counter is symbolic (incremented under guards): fall back to a fresh variable
			if short == "vxBoolN" {
				return c.Fresh(x.knownStr(args[0], short), BoolSort)
			}
			return c.Fresh(x.knownStr(args[0], short), BV(64))
		}
		nm := fmt.Sprintf("%s[%d]", x.knownStr(args[0], short), i.SignedVal())
		if short == "vxBoolN" {
			return x.nondetVar(nm, BoolSort)
		}
		return x.nondetVar(nm, BV(64))
	case "vxMutexFree":
		st := x.ptrExtend(args[0], PathElem{Field: 0})
		return c.Eq(x.load(st).(*Term), c.Const(32, 0))
	case "vxPrint":
		if os.Getenv("VX_TRACE") != "" {
			v := args[1]
			if iv, ok := v.(*IfaceV); ok {
				v = iv.V
			}
			if t, ok := v.(*Term); ok && t.Sort.K != SFP {
				x.nprint++
				nm := fmt.Sprintf("trace.%03d.%s", x.nprint, x.knownStr(args[0], short))
				tv := c.Var(nm, t.Sort)
				gv := c.Var(nm+".reached", BoolSort)
				x.traceEqs = append(x.traceEqs, c.And(c.Eq(tv, t), c.Eq(gv, g)))
			}
		}
		if x.c.Concrete != nil {
			fmt.Fprintf(os.Stderr, "VXPRINT %s = %s (guard %s)\n", x.knownStr(args[0], short), x.showVal(args[1]), x.c.Show(g, 2))
		}
		return nil
	case "vxPrefer":
		// soft constraint used only to pick a replay-friendly counterexample (never to decide)
		x.prefers = append(x.prefers, c.Implies(g, args[0].(*Term)))
		return nil
	case "vxAssert":
		id := x.knownStr(args[1], short)
		x.addOblig("assert", id, c.And(g, c.Not(args[0].(*Term))), site)
		return nil
	case "vxAssertBatched":
		// like vxAssert, but many of them are decided by one solver query (split when satisfiable)
		id := x.knownStr(args[1], short)
		x.addOblig("bassert", id, c.And(g, c.Not(args[0].(*Term))), site)
		return nil
	case "vxReach":
		x.addOblig("reach", x.knownStr(args[0], short), g, site)
		return nil
	case "vxUnwind":
		n := args[0].(*Term)
		if !n.IsConst() {
			x.fail("vxUnwind: bound must be concrete")
		}
		x.unwind = int(n.K)
		return nil
	case "vxStub":
		// vxStub(name string, replacement func)
		nm := x.knownStr(args[0], short)
		iv, ok := args[1].(*IfaceV)
		if !ok {
			x.fail("vxStub: second argument must be a function value")
		}
		fv, ok := iv.V.(*FuncV)
		if !ok || fv.Fn == nil {
			x.fail("vxStub: second argument must be a function value (got %T)", iv.V)
		}
		x.stubs[nm] = fv
		if x.everStubbed == nil {
			x.everStubbed = map[string]bool{}
		}
		x.everStubbed[nm] = true
		return nil
	case "vxStubNested":
		// like vxStub, but the replacement is used only for calls made while the named function is
		// already executing (recursive calls): the outermost call runs the real code
		nm := x.knownStr(args[0], short)
		fv, ok := args[1].(*IfaceV).V.(*FuncV)
		if !ok || fv.Fn == nil {
			x.fail("vxStubNested: second argument must be a function value")
		}
		if x.nestedStubs == nil {
			x.nestedStubs = map[string]*FuncV{}
			x.active = map[string]int{}
		}
		x.nestedStubs[nm] = fv
		return nil
	case "vxFreshI16":
		return c.Fresh(x.knownStr(args[0], short), BV(16))
	case "vxFreshBool":
		return c.Fresh(x.knownStr(args[0], short), BoolSort)
	case "vxUnstub":
		delete(x.stubs, x.knownStr(args[0], short))
		return nil
	case "vxOpt":
		x.opts[x.knownStr(args[0], short)] = x.knownStr(args[1], short)
		x.applyOpts()
		return nil
	case "vxIsConcrete":
		t, ok := args[0].(*Term)
		return c.Bool(ok && t.IsConst())
	case "vxSymbolic":
		return c.True
	case "vxTier":
		if x.tier == "thorough" {
			return c.Const(64, 1)
		}
		return c.Const(64, 0)
	case "vxHavoc":
		// vxHavoc(name string, p *T): every integer/bool leaf of *p (struct fields and small arrays,
		// recursively) becomes a fresh symbolic value "name.L<i>"; pointers, slices, maps, strings,
		// floats and big arrays keep their value and are not counted
		nm := x.knownStr(args[0], short)
		iv := args[1].(*IfaceV)
		p := iv.V.(*PtrV)
		t := iv.T.Underlying().(*types.Pointer).Elem()
		cnt := 0
		x.store(p, x.havocLeaves(nm, t, x.load(p), &cnt), g)
		return nil
	case "vxHavocBig":
		// vxHavocBig(name string, p *[N]T) — fills a big array with fresh SMT arrays
		nm := x.knownStr(args[0], short)
		iv := args[1].(*IfaceV)
		p := iv.V.(*PtrV)
		old := x.force(x.load(p))
		sa, ok := old.(*SymArrV)
		if !ok {
			x.fail("vxHavocBig: target is not a big array (%T)", old)
		}
		if _, dup := x.nondet[nm]; dup {
			x.fail("nondet name used twice: %s", nm)
		}
		x.nondet[nm] = 1
		x.store(p, x.freshSymArr(nm, sa.Elem, sa.Len), g)
		return nil
	case "vxHavocBacking":
		// vxHavocBacking(name string, s []T): replaces the whole backing array of s by an uninterpreted array
		nm := x.knownStr(args[0], short)
		sl, ok := args[1].(*IfaceV).V.(*SliceV)
		if !ok || sl.Base == nil {
			x.fail("vxHavocBacking: need a non-nil slice")
		}
		et := args[1].(*IfaceV).T.Underlying().(*types.Slice).Elem()
		old := x.force(x.load(sl.Base))
		var n int
		switch ov := old.(type) {
		case *BigConstV:
			n = len(ov.Data)
		case *ArrayV:
			n = len(ov.E)
		default:
			x.fail("vxHavocBacking: unsupported backing %T", old)
		}
		x.nondet[nm] = 1
		x.storeRaw(sl.Base, x.freshSymArr(nm, et, c.Const(64, uint64(n))))
		return nil
	case "vxFreshSlice":
		// vxFreshSlice(name string, p *[]T, n int): *p = fresh uninterpreted slice of length n (n may be symbolic)
		nm := x.knownStr(args[0], short)
		iv := args[1].(*IfaceV)
		et := iv.T.Underlying().(*types.Pointer).Elem().Underlying().(*types.Slice).Elem()
		n := args[2].(*Term)
		if _, dup := x.nondet[nm]; dup {
			x.fail("nondet name used twice: %s", nm)
		}
		x.nondet[nm] = 1
		o := x.newObject(types.NewSlice(et), x.freshSymArr(nm, et, n), nm)
		x.store(iv.V, &SliceV{Base: &PtrV{Obj: o}, Off: c.Const(64, 0), Len: n, Cap: n}, g)
		return nil
	case "vxGhostSet":
		x.ghost[x.knownStr(args[0], short)] = args[1]
		return nil
	case "vxGhostGet":
		v, ok := x.ghost[x.knownStr(args[0], short)]
		if !ok {
			x.fail("vxGhostGet: unset ghost %s", x.knownStr(args[0], short))
		}
		return v
	case "vxMakeSliceU64", "vxMakeSliceU32":
		// vxMakeSlice*(name string, n int): fresh symbolic slice backed by an SMT array, symbolic length allowed
		nm := x.knownStr(args[0], short)
		n := args[1].(*Term)
		et := fn.Signature.Results().At(0).Type().Underlying().(*types.Slice).Elem()
		x.nondet[nm] = 1
		o := x.newObject(types.NewSlice(et), x.freshSymArr(nm, et, n), nm)
		return &SliceV{Base: &PtrV{Obj: o}, Off: c.Const(64, 0), Len: n, Cap: n}
	}
	x.fail("unknown harness intrinsic %s", short)
	return nil
}

func (x *Exec) applyOpts() {
	if v, ok := x.opts["go"]; ok {
		x.goPolicy = v
	}
	if v, ok := x.opts["explicit-panic"]; ok {
		x.panicAsAssume = v == "ignore"
	}
}

func (x *Exec) showVal(v Value) string {
	if iv, ok := v.(*IfaceV); ok {
		v = iv.V
	}
	if t, ok := v.(*Term); ok {
		if t.IsConst() && t.Sort.K == SBV {
			return fmt.Sprintf("%d (signed %d)", t.K, t.SignedVal())
		}
		return x.c.Show(t, 4)
	}
	return fmt.Sprintf("%T", v)
}

func (x *Exec) havocLeaves(nm string, t types.Type, v Value, cnt *int) Value {
	switch u := t.Underlying().(type) {
	case *types.Basic:
		if u.Info()&(types.IsInteger|types.IsBoolean) != 0 {
			srt, _ := x.scalarSort(t)
			r := x.nondetVar(fmt.Sprintf("%s.L%d", nm, *cnt), srt)
			*cnt++
			return r
		}
		return v
	case *types.Struct:
		sv, ok := x.force(v).(*StructV)
		if !ok {
			return v
		}
		out := &StructV{F: make([]Value, len(sv.F))}
		for i := range sv.F {
			out.F[i] = x.havocLeaves(nm, u.Field(i).Type(), sv.F[i], cnt)
		}
		return out
	case *types.Array:
		if u.Len() > 160 {
			return v
		}
		av, ok := x.force(v).(*ArrayV)
		if !ok {
			return v
		}
		out := &ArrayV{E: make([]Value, len(av.E))}
		for i := range av.E {
			out.E[i] = x.havocLeaves(nm, u.Elem(), av.E[i], cnt)
		}
		return out
	}
	return v
}
